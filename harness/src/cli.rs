//! The store operations executed by the real `xs` binary (src/main.rs -> xs::client -> unix socket ->
//! xs::api), one child process per operation; same response shape as `http::exec`. What the command
//! line cannot express (topics with a NUL byte) is left to the raw HTTP path.
use std::io::Write;
use std::path::Path;
use std::process::{Command, Stdio};

use base64::Engine;
use serde_json::{json, Value};

pub struct Out {
    pub code: i32,
    pub stdout: Vec<u8>,
    pub stderr: String,
}

const ZERO: &str = "0000000000000000000000000";

pub fn run(bin: &str, args: &[String], stdin: &[u8]) -> Out {
    let mut child = match Command::new(bin)
        .args(args)
        .stdin(Stdio::piped())
        .stdout(Stdio::piped())
        .stderr(Stdio::piped())
        .spawn()
    {
        Ok(c) => c,
        Err(e) => return Out { code: -100, stdout: vec![], stderr: format!("spawn: {e}") },
    };
    let mut si = child.stdin.take().unwrap();
    let data = stdin.to_vec();
    // (the child may answer before it has read everything)
    let w = std::thread::spawn(move || {
        let _ = si.write_all(&data);
    });
    let out = child.wait_with_output();
    let _ = w.join();
    match out {
        Ok(o) => Out {
            code: o.status.code().unwrap_or(-101),
            stdout: o.stdout,
            stderr: String::from_utf8_lossy(&o.stderr).to_string(),
        },
        Err(e) => Out { code: -102, stdout: vec![], stderr: format!("wait: {e}") },
    }
}

/// the HTTP status the client reports in its error text ("404 Not Found:: ..."); a command that fails without naming
/// one has refused the operation all the same: 400
pub fn status_of(o: &Out) -> i64 {
    let n = status_in_text(o);
    if n == -4 { 400 } else { n }
}

fn status_in_text(o: &Out) -> i64 {
    let s = &o.stderr;
    let b = s.as_bytes();
    for i in 0..b.len().saturating_sub(3) {
        if b[i].is_ascii_digit()
            && b[i + 1].is_ascii_digit()
            && b[i + 2].is_ascii_digit()
            && b[i + 3] == b' '
            && (i == 0 || !b[i - 1].is_ascii_alphanumeric())
        {
            let n: i64 = s[i..i + 3].parse().unwrap_or(-4);
            if (100..600).contains(&n) {
                return n;
            }
        }
    }
    -4
}

fn ndjson(b: &[u8]) -> Option<Vec<Value>> {
    let mut v = vec![];
    for l in String::from_utf8_lossy(b).lines() {
        if l.trim().is_empty() {
            continue;
        }
        v.push(serde_json::from_str(l).ok()?);
    }
    Some(v)
}

pub fn cat_args(dir: &Path, rq: &Value, nth: u64, sse_out: bool) -> Vec<String> {
    let mut a = vec!["cat".to_string(), dir.to_string_lossy().to_string()];
    match rq["ctx"].as_str() {
        None => a.push("--all".into()),
        // the system context is what `cat` reads when no context is named
        Some(c) if c == ZERO && nth % 2 == 1 => {}
        Some(c) => {
            a.push(if nth % 4 < 2 { "-c".into() } else { "--context".into() });
            a.push(c.to_string());
        }
    }
    if let Some(l) = rq["last"].as_str() {
        a.push("--last-id".into());
        a.push(l.to_string());
    }
    if let Some(n) = rq["limit"].as_u64() {
        a.push("--limit".into());
        a.push(n.to_string());
    }
    if rq["tail"].as_bool().unwrap_or(false) {
        a.push("--tail".into());
    }
    if sse_out {
        a.push("--sse".into());
    }
    a
}

/// `tcp`: the server also listens there (":PORT"); the tool is then given that address for most calls, the store
/// directory (unix socket, and for `xs cas` the content files themselves) for the rest
pub fn exec(bin: &str, dir: &Path, tcp: Option<&str>, op: &str, rq: &Value, nth: u64) -> Option<Value> {
    let d = match tcp {
        Some(a) if nth % 4 != 3 => a.to_string(),
        _ => dir.to_string_lossy().to_string(),
    };
    let dir: &Path = Path::new(&d);
    // an argument cannot carry a NUL byte
    if rq["topic"].as_str().map(|t| t.contains('\0')).unwrap_or(false) {
        return None;
    }
    Some(match op {
        "append" => {
            let mut a = vec!["append".to_string(), d, rq["topic"].as_str().unwrap_or("").to_string()];
            if !rq["meta"].is_null() {
                a.push("--meta".into());
                a.push(serde_json::to_string(&rq["meta"]).unwrap());
            }
            if let Some(t) = rq["ttl"].as_str() {
                a.push("--ttl".into());
                a.push(t.to_string());
            }
            if let Some(c) = rq["ctx"].as_str() {
                if c != ZERO || nth % 2 == 0 {
                    a.push("-c".into());
                    a.push(c.to_string());
                }
            }
            let body = rq["content"]
                .as_str()
                .map(|b| base64::prelude::BASE64_STANDARD.decode(b).unwrap())
                .unwrap_or_default();
            let o = run(bin, &a, &body);
            if o.code == 0 {
                match serde_json::from_slice::<Value>(&o.stdout) {
                    Ok(f) => json!({"ok": true, "frame": f, "status": 200}),
                    Err(_) if o.stdout.is_empty() => json!({"lost": true}),
                    Err(_) => json!({"ok": false, "err": "unparsable output", "status": -3}),
                }
            } else {
                json!({"ok": false, "err": o.stderr, "status": status_of(&o)})
            }
        }
        "import" => {
            let body = serde_json::to_vec(&rq["frame"]).unwrap();
            let o = run(bin, &["import".to_string(), d], &body);
            json!({"ok": o.code == 0, "status": if o.code == 0 { 200 } else { status_of(&o) }, "err": o.stderr})
        }
        "remove" => {
            let o = run(bin, &["remove".to_string(), d, rq["id"].as_str().unwrap().to_string()], &[]);
            json!({"ok": o.code == 0, "status": if o.code == 0 { 204 } else { status_of(&o) }})
        }
        "read" => {
            // (`xs cat --sse` is not used: the client sends `Accept: */*` ahead of `Accept: text/event-stream` and the
            // server answers the first, so the flag has no effect - an observation outside the listed properties)
            let o = run(bin, &cat_args(dir, rq, nth, false), &[]);
            if o.code == 0 {
                match ndjson(&o.stdout) {
                    Some(frames) => json!({"frames": frames, "status": 200}),
                    None => json!({"frames": [], "status": -3}),
                }
            } else {
                json!({"frames": [], "status": status_of(&o)})
            }
        }
        "get" => {
            let o = run(bin, &["get".to_string(), d, rq["id"].as_str().unwrap().to_string()], &[]);
            if o.code == 0 && o.stdout.is_empty() {
                json!({"lost": true})
            } else if o.code == 0 {
                json!({"frame": serde_json::from_slice::<Value>(&o.stdout).unwrap_or(json!({"unparsable": true})), "status": 200})
            } else {
                json!({"frame": null, "status": status_of(&o)})
            }
        }
        "head" => {
            let c = rq["ctx"].as_str().unwrap();
            let mut a = vec!["head".to_string(), d, rq["topic"].as_str().unwrap_or("").to_string()];
            if !(c == ZERO && nth % 2 == 1) {
                a.push("-c".into());
                a.push(c.to_string());
            }
            let o = run(bin, &a, &[]);
            if o.code == 0 {
                json!({"frame": serde_json::from_slice::<Value>(&o.stdout).unwrap_or(json!({"unparsable": true})), "status": 200})
            } else {
                json!({"frame": null, "status": status_of(&o)})
            }
        }
        "cas_put" => {
            let body = base64::prelude::BASE64_STANDARD.decode(rq["content"].as_str().unwrap()).unwrap();
            let o = run(bin, &["cas-post".to_string(), d], &body);
            if o.code == 0 && o.stdout.is_empty() {
                return Some(json!({"lost": true}));
            }
            json!({"hash": String::from_utf8_lossy(&o.stdout), "status": if o.code == 0 { 200 } else { status_of(&o) }})
        }
        "cas_read" => {
            let o = run(bin, &["cas".to_string(), d, rq["hash"].as_str().unwrap().to_string()], &[]);
            if o.code == 0 {
                json!({"content": base64::prelude::BASE64_STANDARD.encode(&o.stdout), "status": 200})
            } else {
                json!({"err": o.stderr, "status": status_of(&o)})
            }
        }
        _ => return None,
    })
}

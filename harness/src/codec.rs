//! C12: runs the vectors enumerated by spec/XsCodec.tla through the real parsers and renderers.
use std::io::{BufRead, Write};
use std::time::Duration;

use rand::rngs::StdRng;
use rand::{Rng, SeedableRng};
use serde_json::{json, Value};
use xs::store::{FollowOption, ReadOptions, TTL};

fn enc(s: &str) -> String {
    url::form_urlencoded::byte_serialize(s.as_bytes()).collect()
}

fn ttl_kn(r: Result<TTL, String>) -> (String, String) {
    match r {
        Ok(TTL::Forever) => ("forever".into(), "0".into()),
        Ok(TTL::Ephemeral) => ("ephemeral".into(), "0".into()),
        Ok(TTL::Time(d)) => ("time".into(), d.as_millis().to_string()),
        Ok(TTL::Head(n)) => ("head".into(), n.to_string()),
        Err(_) => ("ERR".into(), "0".into()),
    }
}

fn follow_kn(r: Result<ReadOptions, String>) -> (String, String) {
    match r.map(|o| o.follow) {
        Ok(FollowOption::Off) => ("off".into(), "0".into()),
        Ok(FollowOption::On) => ("on".into(), "0".into()),
        Ok(FollowOption::WithHeartbeat(d)) => ("hb".into(), d.as_millis().to_string()),
        Err(_) => ("ERR".into(), "0".into()),
    }
}

fn opts(q: Option<String>) -> Result<ReadOptions, String> {
    std::panic::catch_unwind(|| ReadOptions::from_query(q.as_deref()).map_err(|e| e.to_string()))
        .unwrap_or(Err("panic".into()))
}

pub fn run(inp: &str, out: &str, seed: u64) {
    let mut o = std::io::BufWriter::new(std::fs::File::create(out).unwrap());
    let mut n = 0;
    let mut put = |v: Value| {
        writeln!(o, "{}", v).unwrap();
        n += 1;
    };
    for line in std::io::BufReader::new(std::fs::File::open(inp).unwrap()).lines() {
        let v: Value = serde_json::from_str(&line.unwrap()).unwrap();
        let kind = v["kind"].as_str().unwrap();
        let a = v["a"].as_str().unwrap().to_string();
        let b = v["b"].as_str().unwrap().to_string();
        let base = json!({"kind": kind, "a": a, "b": b, "gotk": "", "gotn": "", "gots": ""});
        let mut res = |via: &str, gk: &str, gn: &str, gs: &str| {
            let mut e = base.clone();
            e["via"] = json!(via);
            e["gotk"] = json!(gk);
            e["gotn"] = json!(gn);
            e["gots"] = json!(gs);
            put(e);
        };
        match kind {
            "ttl" => {
                let s = format!("{a}{b}");
                let (k, n) = ttl_kn(xs::store::parse_ttl(&s));
                res("parse_ttl", &k, &n, "");
                let (k, n) = ttl_kn(TTL::from_query(Some(&format!("ttl={}", enc(&s)))));
                res("query", &k, &n, "");
                let (k, n) = ttl_kn(TTL::from_query(Some(&format!("x=1&ttl={}&y=2", enc(&s)))));
                res("query_mid", &k, &n, "");
                let js = serde_json::to_string(&s).unwrap();
                let (k, n) = ttl_kn(serde_json::from_str::<TTL>(&js).map_err(|e| e.to_string()));
                res("json", &k, &n, "");
            }
            "ttl_render" => {
                let ttl = match a.as_str() {
                    "forever" => TTL::Forever,
                    "ephemeral" => TTL::Ephemeral,
                    "time" => TTL::Time(Duration::from_millis(b.parse::<u64>().unwrap())),
                    _ => TTL::Head(b.parse::<u32>().unwrap()),
                };
                let q = ttl.to_query();
                res("to_query", "", "", q.strip_prefix("ttl=").unwrap_or("?noprefix"));
                let js = serde_json::to_string(&ttl).unwrap();
                res("json", "", "", js.trim_matches('"'));
                // and through a stored frame
                let f = xs::store::Frame::builder("t", xs::store::ZERO_CONTEXT).ttl(ttl.clone()).build();
                let back: xs::store::Frame = serde_json::from_slice(&serde_json::to_vec(&f).unwrap()).unwrap();
                res("frame", "", "", if back.ttl == Some(ttl) { v["exp"].as_str().unwrap() } else { "frame-roundtrip-differs" });
            }
            "follow" => {
                let q = if a == "absent" { None } else { Some(format!("follow={}", enc(&a))) };
                let (k, n) = follow_kn(opts(q));
                res("from_query", &k, &n, "");
            }
            "follow_render" => {
                let f = match a.as_str() {
                    "off" => FollowOption::Off,
                    "on" => FollowOption::On,
                    _ => FollowOption::WithHeartbeat(Duration::from_millis(b.parse::<u64>().unwrap())),
                };
                let q = ReadOptions::builder().follow(f).build().to_query_string();
                let got = url::form_urlencoded::parse(q.as_bytes())
                    .find(|(k, _)| k == "follow")
                    .map(|(_, v)| v.to_string())
                    .unwrap_or("absent".into());
                res("to_query_string", "", "", &got);
            }
            "tail" => {
                let q = if a == "absent" { None } else { Some(format!("tail={}", enc(&a))) };
                let got = match opts(q) {
                    Ok(o) => o.tail.to_string(),
                    Err(_) => "ERR".into(),
                };
                res("from_query", "", "", &got);
            }
            "limit" => {
                let q = if a == "absent" { None } else { Some(format!("limit={}", enc(&a))) };
                let got = match opts(q) {
                    Ok(o) => o.limit.map(|n| n.to_string()).unwrap_or("none".into()),
                    Err(_) => "ERR".into(),
                };
                res("from_query", "", "", &got);
            }
            _ => {}
        }
    }
    // whole-value round trips client encoding -> server parser, seeded
    let mut rng = StdRng::seed_from_u64(seed);
    for _ in 0..2000 {
        let follow = match rng.gen_range(0..3) {
            0 => FollowOption::Off,
            1 => FollowOption::On,
            _ => FollowOption::WithHeartbeat(Duration::from_millis(match rng.gen_range(0..4) {
                0 => rng.gen_range(0..10),
                1 => rng.gen_range(0..100_000),
                2 => u32::MAX as u64 + rng.gen_range(0..5),
                _ => rng.gen::<u64>() >> rng.gen_range(0..40),
            })),
        };
        let idg = |rng: &mut StdRng| scru128::Scru128Id::from_u128(rng.gen::<u128>() >> rng.gen_range(0..100));
        let o = ReadOptions::builder()
            .follow(follow)
            .tail(rng.gen_bool(0.5))
            .maybe_last_id(if rng.gen_bool(0.5) { Some(idg(&mut rng)) } else { None })
            .maybe_limit(if rng.gen_bool(0.5) { Some((rng.gen::<u64>() >> rng.gen_range(0..64)) as usize) } else { None })
            .maybe_context_id(if rng.gen_bool(0.5) { Some(idg(&mut rng)) } else { None })
            .build();
        let q = o.to_query_string();
        let back = opts(if q.is_empty() { None } else { Some(q.clone()) });
        let ok = back.as_ref().map(|b| *b == o).unwrap_or(false);
        put(json!({"kind": "opts_rt", "a": if ok { String::new() } else { q }, "b": "", "via": "to_query_string/from_query",
                   "gotk": "", "gotn": "", "gots": if ok { "ok" } else { "differs" }}));
    }
    println!("{{\"results\": {n}}}");
}

//! Durability group (C04, crash parts of C10 / C07): the three process roles.
//!
//! * `dur-child`   : one store incarnation that executes a concrete operation list on a
//!                   directory and writes `ACK k {json}` with a raw write(2) to a side file
//!                   after every acknowledged operation.  It never drops the store: it ends
//!                   with `process::exit`, so "ran to the end" is also a kill image.
//! * `dur-killat`  : a minimal ptrace supervisor.  It runs a command, counts - over *all*
//!                   threads, unlike `strace -e inject=...:when=K`, whose counters are per
//!                   thread - the store-mutating system calls that name a path under one of
//!                   the given prefixes, and delivers SIGKILL to the whole process on entry to
//!                   the K-th one.  What the dead process leaves behind is the kill image.
//! * `dur-recover` : opens an image with the real `Store::new` in a fresh process and prints
//!                   one JSON object with everything a user can observe, through every access
//!                   path, plus the raw partitions.  A panic of the code under test is part of
//!                   the observation.
use std::collections::{BTreeMap, BTreeSet};
use std::io::Write;
use std::os::unix::fs::FileExt;
use std::os::unix::process::CommandExt;
use std::path::PathBuf;
use std::str::FromStr;

use base64::Engine;
use scru128::Scru128Id;
use serde_json::{json, Value};
use xs::store::{Frame, Store, ZERO_CONTEXT};
use xs::verif;

fn arg_val(args: &[String], name: &str) -> Option<String> {
    args.iter().position(|a| a == name).and_then(|i| args.get(i + 1).cloned())
}

fn panic_msg(e: Box<dyn std::any::Any + Send>) -> String {
    e.downcast_ref::<String>()
        .cloned()
        .or_else(|| e.downcast_ref::<&str>().map(|s| s.to_string()))
        .unwrap_or_else(|| "panic".into())
}

// ------------------------------------------------------------------------- dur-child

fn resolve_ctx(v: &Value, ids: &BTreeMap<u64, Scru128Id>) -> Scru128Id {
    if let Some(k) = v["ref"].as_u64() {
        // a context that an earlier operation of this run registered
        return *ids.get(&k).expect("ctx ref to an operation without id");
    }
    if let Some(s) = v["id"].as_str() {
        return Scru128Id::from_str(s).expect("ctx id");
    }
    ZERO_CONTEXT
}

pub fn child(args: &[String]) {
    let dir = PathBuf::from(&args[2]);
    let opsf = arg_val(args, "--ops").expect("--ops");
    let ackf = arg_val(args, "--ack").expect("--ack");
    let spec: Value = serde_json::from_slice(&std::fs::read(opsf).unwrap()).unwrap();
    let mut ack = std::fs::OpenOptions::new()
        .create(true)
        .append(true)
        .open(ackf)
        .unwrap();
    verif::set_clock(Some(spec["clock"].as_u64().unwrap_or(1_700_000_000_000)));
    let rt = tokio::runtime::Builder::new_current_thread()
        .enable_all()
        .build()
        .unwrap();
    let store = Store::new(dir);
    // operations marked via=http go through the real HTTP front end (src/api.rs), served
    // inside this process so that a kill takes client, server and store together
    let http = spec["ops"].as_array().unwrap().iter().any(|o| o["via"].as_str() == Some("http"));
    let mut open = json!({});
    let srv_rt;
    if http {
        srv_rt = tokio::runtime::Builder::new_multi_thread().worker_threads(2).enable_all().build().unwrap();
        let engine = xs::nu::Engine::new().expect("nu engine");
        let s2 = store.clone();
        srv_rt.spawn(async move {
            let _ = xs::api::serve(s2, engine, None).await;
        });
        let sock = store.path.join("sock");
        let t0 = std::time::Instant::now();
        while std::os::unix::net::UnixStream::connect(&sock).is_err() {
            if t0.elapsed().as_secs() > 20 {
                panic!("dur-child: the HTTP server did not come up");
            }
            std::thread::sleep(std::time::Duration::from_millis(2));
        }
        // api::serve announces itself with an xs.start frame: part of the history
        open = json!({"start": store.head("xs.start", ZERO_CONTEXT).map(|f| f.id.to_string())});
    }
    // std::fs::File is unbuffered: each write_all below is one write(2)
    ack.write_all(format!("OPEN {open}\n").as_bytes()).unwrap();
    let mut ids: BTreeMap<u64, Scru128Id> = BTreeMap::new();
    let b64 = base64::prelude::BASE64_STANDARD;
    for (i, op) in spec["ops"].as_array().unwrap().iter().enumerate() {
        let k = i as u64 + 1;
        if let Some(ms) = op["clock"].as_u64() {
            verif::set_clock(Some(ms));
        }
        let res: Value = match op["op"].as_str().unwrap() {
            "append" if op["via"].as_str() == Some("http") => {
                let ctx = resolve_ctx(&op["ctx"], &ids);
                let r = http_append(&store.path.join("sock"), op, ctx);
                if let Some(id) = r["id"].as_str() {
                    ids.insert(k, Scru128Id::from_str(id).unwrap());
                }
                r
            }
            "append" => {
                let ctx = resolve_ctx(&op["ctx"], &ids);
                let hash = match op["content"].as_str() {
                    Some(c) => {
                        let bytes = b64.decode(c).unwrap();
                        if op["via"].as_str() == Some("stream") {
                            // the path POST /{topic} takes: temp file written with write(2), then rename
                            let mut w = store.cas_writer_sync().expect("cas_writer_sync");
                            w.write_all(&bytes).expect("cas write");
                            Some(w.commit().expect("cas commit"))
                        } else {
                            // the path handlers / commands / generators take (mmap + rename)
                            Some(store.cas_insert_sync(&bytes).expect("cas_insert_sync"))
                        }
                    }
                    None => None,
                };
                let ttl = op["ttl"].as_str().map(|s| xs::store::parse_ttl(s).expect("ttl"));
                let meta = if op["meta"].is_null() { None } else { Some(op["meta"].clone()) };
                let frame = Frame::builder(op["topic"].as_str().unwrap(), ctx)
                    .maybe_hash(hash.clone())
                    .maybe_meta(meta)
                    .maybe_ttl(ttl)
                    .build();
                match store.append(frame) {
                    Ok(f) => {
                        ids.insert(k, f.id);
                        json!({"ok": true, "id": f.id.to_string(), "hash": hash.map(|h| h.to_string())})
                    }
                    Err(e) => json!({"ok": false, "err": e.to_string()}),
                }
            }
            "import" => {
                let mut fv = op["frame"].clone();
                fv["context_id"] = json!(resolve_ctx(&op["ctx"], &ids).to_string());
                let frame: Frame = serde_json::from_value(fv).expect("import frame");
                match store.insert_frame(&frame) {
                    Ok(()) => {
                        ids.insert(k, frame.id);
                        json!({"ok": true, "id": frame.id.to_string()})
                    }
                    Err(e) => json!({"ok": false, "err": e.to_string()}),
                }
            }
            "remove" => {
                let id = match op["target"]["ref"].as_u64() {
                    Some(r) => ids.get(&r).copied(),
                    None => op["target"]["id"].as_str().map(|s| Scru128Id::from_str(s).unwrap()),
                };
                match id {
                    // the target was itself rejected: nothing to remove
                    None => json!({"ok": true, "noop": true}),
                    Some(id) => match store.remove(&id) {
                        Ok(()) => json!({"ok": true, "id": id.to_string()}),
                        Err(e) => json!({"ok": false, "err": e.to_string()}),
                    },
                }
            }
            "drain" => {
                rt.block_on(store.wait_for_gc());
                json!({"ok": true})
            }
            other => panic!("dur-child: unknown op {other}"),
        };
        ack.write_all(format!("ACK {k} {res}\n").as_bytes()).unwrap();
    }
    ack.write_all(b"DONE\n").unwrap();
    // no destructor runs: the journal's drop-time flush must not help the store
    std::process::exit(0);
}

/// POST /{topic}?context=..&ttl=.. with the content as body and the meta in xs-meta
fn http_append(sock: &std::path::Path, op: &Value, ctx: Scru128Id) -> Value {
    use std::io::Read;
    let b64 = base64::prelude::BASE64_STANDARD;
    let body = op["content"].as_str().map(|c| b64.decode(c).unwrap()).unwrap_or_default();
    let mut target = format!("/{}?context={}", op["topic"].as_str().unwrap(), ctx);
    if let Some(t) = op["ttl"].as_str() {
        target.push_str(&format!("&ttl={t}"));
    }
    let mut head = format!("POST {target} HTTP/1.1\r\nHost: localhost\r\nConnection: close\r\nContent-Length: {}\r\n", body.len());
    if !op["meta"].is_null() {
        head.push_str(&format!("xs-meta: {}\r\n", b64.encode(op["meta"].to_string())));
    }
    head.push_str("\r\n");
    let mut s = match std::os::unix::net::UnixStream::connect(sock) {
        Ok(s) => s,
        Err(e) => return json!({"ok": false, "err": format!("connect: {e}"), "http": 0}),
    };
    let mut resp = Vec::new();
    if s.write_all(head.as_bytes()).and_then(|_| s.write_all(&body)).is_err() || s.read_to_end(&mut resp).is_err() {
        // the connection was dropped without a response (a panic in the handler): an observation
        return json!({"ok": false, "err": "connection dropped", "http": 0});
    }
    let text = String::from_utf8_lossy(&resp).to_string();
    let status: u64 = text.split_whitespace().nth(1).and_then(|x| x.parse().ok()).unwrap_or(0);
    let payload = text.split("\r\n\r\n").nth(1).unwrap_or("");
    // the body may be chunked: take the JSON object out of it
    let js = payload.find('{').and_then(|a| payload.rfind('}').map(|b| &payload[a..=b]));
    match (status, js.and_then(|j| serde_json::from_str::<Value>(j).ok())) {
        (200, Some(f)) => json!({"ok": true, "id": f["id"], "hash": f["hash"], "http": 200}),
        _ => json!({"ok": false, "err": payload.chars().take(200).collect::<String>(), "http": status}),
    }
}

// ------------------------------------------------------------------------- dur-recover

fn unhex(s: &str) -> Vec<u8> {
    (0..s.len() / 2)
        .map(|i| u8::from_str_radix(&s[2 * i..2 * i + 2], 16).unwrap_or(0))
        .collect()
}

fn id_of(b: &[u8]) -> Option<Scru128Id> {
    let a: [u8; 16] = b.try_into().ok()?;
    Some(Scru128Id::from_bytes(a))
}

pub fn recover(args: &[String]) {
    let dir = PathBuf::from(&args[2]);
    let probe: Value = match arg_val(args, "--probe") {
        Some(p) => serde_json::from_slice(&std::fs::read(p).unwrap()).unwrap(),
        None => json!({}),
    };
    std::panic::set_hook(Box::new(|_| {}));
    verif::set_clock(Some(probe["clock"].as_u64().unwrap_or(1_700_000_000_000)));
    let out = std::io::stdout();
    let d2 = dir.clone();
    let store = match std::panic::catch_unwind(move || Store::new(d2)) {
        Ok(s) => s,
        Err(e) => {
            writeln!(out.lock(), "{}", json!({"open": false, "panic": panic_msg(e)})).unwrap();
            std::process::exit(0);
        }
    };
    let res = std::panic::catch_unwind(std::panic::AssertUnwindSafe(|| observe(&store, &probe)));
    let v = match res {
        Ok(v) => v,
        Err(e) => json!({"open": true, "probe_panic": panic_msg(e)}),
    };
    writeln!(out.lock(), "{}", v).unwrap();
    std::process::exit(0);
}

fn observe(store: &Store, probe: &Value) -> Value {
    let dump = store.verif_dump();
    let mut ids: BTreeSet<Scru128Id> = BTreeSet::new();
    let mut ctxs: BTreeSet<Scru128Id> = BTreeSet::new();
    let mut heads: BTreeSet<(String, Scru128Id)> = BTreeSet::new();
    ctxs.insert(ZERO_CONTEXT);
    for s in probe["ids"].as_array().into_iter().flatten() {
        ids.insert(Scru128Id::from_str(s.as_str().unwrap()).unwrap());
    }
    for s in probe["ctxs"].as_array().into_iter().flatten() {
        ctxs.insert(Scru128Id::from_str(s.as_str().unwrap()).unwrap());
    }
    for h in probe["heads"].as_array().into_iter().flatten() {
        heads.insert((
            h[0].as_str().unwrap().to_string(),
            Scru128Id::from_str(h[1].as_str().unwrap()).unwrap(),
        ));
    }
    // everything the raw partitions mention is probed too, so that an entry that exists in one
    // partition only is looked up through every other path
    let mut raw_t = vec![];
    let mut raw_c = vec![];
    for e in dump["stream"].as_array().unwrap() {
        if let Some(i) = id_of(&unhex(e[0].as_str().unwrap())) {
            ids.insert(i);
        }
        if let Ok(f) = serde_json::from_str::<Frame>(e[1].as_str().unwrap()) {
            ctxs.insert(f.context_id);
            heads.insert((f.topic.clone(), f.context_id));
        }
    }
    for e in dump["idx_topic"].as_array().unwrap() {
        let k = unhex(e.as_str().unwrap());
        if k.len() >= 33 {
            let (c, i) = (id_of(&k[..16]), id_of(&k[k.len() - 16..]));
            let t = String::from_utf8_lossy(&k[16..k.len() - 17]).to_string();
            if let (Some(c), Some(i)) = (c, i) {
                ids.insert(i);
                ctxs.insert(c);
                heads.insert((t.clone(), c));
                raw_t.push(json!([c.to_string(), t, i.to_string()]));
                continue;
            }
        }
        raw_t.push(json!(["?", e, "?"]));
    }
    for e in dump["idx_context"].as_array().unwrap() {
        let k = unhex(e.as_str().unwrap());
        if k.len() == 32 {
            let (c, i) = (id_of(&k[..16]).unwrap(), id_of(&k[16..]).unwrap());
            ids.insert(i);
            ctxs.insert(c);
            raw_c.push(json!([c.to_string(), i.to_string()]));
        } else {
            raw_c.push(json!(["?", e]));
        }
    }
    for c in dump["contexts"].as_array().unwrap() {
        ctxs.insert(Scru128Id::from_str(c.as_str().unwrap()).unwrap());
    }
    let raw_s: Vec<Value> = dump["stream"]
        .as_array()
        .unwrap()
        .iter()
        .map(|e| {
            let id = id_of(&unhex(e[0].as_str().unwrap())).map(|i| i.to_string());
            let f: Value = serde_json::from_str(e[1].as_str().unwrap()).unwrap_or(json!({"garbled": e[1]}));
            json!([id, f])
        })
        .collect();

    let fj = |f: &Frame| serde_json::to_value(f).unwrap();
    let read_all: Vec<Value> = store.read_sync(None, None, None).map(|f| fj(&f)).collect();
    let mut read_ctx = serde_json::Map::new();
    for c in &ctxs {
        let v: Vec<Value> = store
            .read_sync(None, None, Some(*c))
            .map(|f| json!(f.id.to_string()))
            .collect();
        read_ctx.insert(c.to_string(), json!(v));
    }
    let mut get = serde_json::Map::new();
    for i in &ids {
        get.insert(i.to_string(), store.get(i).map(|f| fj(&f)).unwrap_or(Value::Null));
    }
    let head: Vec<Value> = heads
        .iter()
        .map(|(t, c)| json!([t, c.to_string(), store.head(t, *c).map(|f| f.id.to_string())]))
        .collect();
    // content of every visible hash
    let mut cas = serde_json::Map::new();
    for f in &read_all {
        if let Some(h) = f["hash"].as_str() {
            if cas.contains_key(h) {
                continue;
            }
            let r = match ssri::Integrity::from_str(h) {
                Err(e) => json!({"ok": false, "err": format!("unparsable hash: {e}")}),
                Ok(i) => match store.cas_read_sync(&i) {
                    Ok(b) => json!({"ok": ssri::Integrity::from(&b).to_string() == h, "len": b.len()}),
                    Err(e) => json!({"ok": false, "err": e.to_string()}),
                },
            };
            cas.insert(h.to_string(), r);
        }
    }
    // last, because it changes the store: does each context accept an append?
    let mut accept = serde_json::Map::new();
    if probe["accept"].as_bool().unwrap_or(true) {
        for c in &ctxs {
            let ok = store.append(Frame::builder("zz.probe", *c).build()).is_ok();
            accept.insert(c.to_string(), json!(ok));
        }
    }
    json!({
        "open": true,
        "stream": raw_s, "idx_topic": raw_t, "idx_context": raw_c, "contexts": dump["contexts"],
        "read_all": read_all, "read_ctx": read_ctx, "get": get, "head": head, "cas": cas,
        "accept": accept,
    })
}

// ------------------------------------------------------------------------- dur-killat

use nix::sys::ptrace;
use nix::sys::signal::{kill, Signal};
use nix::sys::wait::{waitpid, WaitPidFlag, WaitStatus};
use nix::unistd::Pid;

fn read_cstr(pid: Pid, addr: u64) -> Option<String> {
    let f = std::fs::File::open(format!("/proc/{}/mem", pid.as_raw())).ok()?;
    let mut buf = vec![0u8; 4096];
    let n = f.read_at(&mut buf, addr).ok()?;
    let end = buf[..n].iter().position(|b| *b == 0)?;
    Some(String::from_utf8_lossy(&buf[..end]).to_string())
}

fn fd_path(pid: Pid, fd: u64) -> Option<String> {
    std::fs::read_link(format!("/proc/{}/fd/{}", pid.as_raw(), fd as i64))
        .ok()
        .map(|p| p.to_string_lossy().to_string())
}

/// the path a store-mutating system call is about, None if the call is of no interest
fn mutating_target(pid: Pid, nr: u64, a: [u64; 4]) -> Option<(&'static str, Option<String>)> {
    const O_CREAT: u64 = 0o100;
    const O_TRUNC: u64 = 0o1000;
    Some(match nr {
        1 => ("write", fd_path(pid, a[0])),
        18 => ("pwrite64", fd_path(pid, a[0])),
        20 => ("writev", fd_path(pid, a[0])),
        296 => ("pwritev", fd_path(pid, a[0])),
        74 => ("fsync", fd_path(pid, a[0])),
        75 => ("fdatasync", fd_path(pid, a[0])),
        77 => ("ftruncate", fd_path(pid, a[0])),
        285 => ("fallocate", fd_path(pid, a[0])),
        277 => ("sync_file_range", fd_path(pid, a[0])),
        2 if a[1] & (O_CREAT | O_TRUNC) != 0 => ("open", read_cstr(pid, a[0])),
        85 => ("creat", read_cstr(pid, a[0])),
        257 if a[2] & (O_CREAT | O_TRUNC) != 0 => ("openat", read_cstr(pid, a[1])),
        82 => ("rename", read_cstr(pid, a[1])),
        264 => ("renameat", read_cstr(pid, a[3])),
        316 => ("renameat2", read_cstr(pid, a[3])),
        83 => ("mkdir", read_cstr(pid, a[0])),
        258 => ("mkdirat", read_cstr(pid, a[1])),
        84 => ("rmdir", read_cstr(pid, a[0])),
        87 => ("unlink", read_cstr(pid, a[0])),
        263 => ("unlinkat", read_cstr(pid, a[1])),
        86 => ("link", read_cstr(pid, a[1])),
        265 => ("linkat", read_cstr(pid, a[3])),
        _ => return None,
    })
}

/// `xsv dur-killat --k K [--prefix P]... [--log F] -- cmd args...`
/// K = 0: never kill (count only).  Prints {"killed":bool,"count":n,"exit":code|null,"at":name}.
pub fn killat(args: &[String]) {
    let k: u64 = arg_val(args, "--k").map(|s| s.parse().unwrap()).unwrap_or(0);
    let mut prefixes = vec![];
    for (i, a) in args.iter().enumerate() {
        if a == "--prefix" {
            prefixes.push(args[i + 1].clone());
        }
    }
    let mut log = arg_val(args, "--log").map(|p| std::io::BufWriter::new(std::fs::File::create(p).unwrap()));
    let sep = args.iter().position(|a| a == "--").expect("-- cmd");
    let cmdv = &args[sep + 1..];
    let mut cmd = std::process::Command::new(&cmdv[0]);
    cmd.args(&cmdv[1..])
        .stdin(std::process::Stdio::null())
        .stdout(std::process::Stdio::null())
        .stderr(std::process::Stdio::null());
    unsafe {
        cmd.pre_exec(|| ptrace::traceme().map_err(|e| std::io::Error::from_raw_os_error(e as i32)));
    }
    let child = cmd.spawn().expect("spawn traced child");
    let main = Pid::from_raw(child.id() as i32);
    match waitpid(main, None) {
        Ok(WaitStatus::Stopped(_, Signal::SIGTRAP)) => {}
        o => {
            eprintln!("dur-killat: unexpected first stop {o:?}");
            std::process::exit(2);
        }
    }
    ptrace::setoptions(
        main,
        ptrace::Options::PTRACE_O_TRACESYSGOOD
            | ptrace::Options::PTRACE_O_TRACECLONE
            | ptrace::Options::PTRACE_O_TRACEFORK
            | ptrace::Options::PTRACE_O_TRACEVFORK
            | ptrace::Options::PTRACE_O_EXITKILL,
    )
    .expect("setoptions");
    ptrace::syscall(main, None).expect("resume");
    let mut seen: BTreeSet<i32> = BTreeSet::new();
    seen.insert(main.as_raw());
    let mut count = 0u64;
    let mut killed = false;
    let mut at = String::new();
    let mut exit_code: Option<i32> = None;
    loop {
        let st = match waitpid(Pid::from_raw(-1), Some(WaitPidFlag::__WALL)) {
            Ok(s) => s,
            Err(nix::errno::Errno::ECHILD) => break,
            Err(e) => {
                eprintln!("dur-killat: waitpid {e}");
                std::process::exit(2);
            }
        };
        match st {
            WaitStatus::PtraceSyscall(pid) => {
                if killed {
                    continue;
                }
                seen.insert(pid.as_raw());
                if let Ok(regs) = ptrace::getregs(pid) {
                    // x86-64: rax holds -ENOSYS at a syscall-enter stop
                    if regs.rax as i64 == -38 {
                        let a = [regs.rdi, regs.rsi, regs.rdx, regs.r10];
                        if let Some((name, path)) = mutating_target(pid, regs.orig_rax, a) {
                            let hit = match &path {
                                Some(p) => prefixes.is_empty() || prefixes.iter().any(|x| p.starts_with(x.as_str())),
                                None => false,
                            };
                            if hit {
                                count += 1;
                                if let Some(l) = log.as_mut() {
                                    let _ = writeln!(l, "{count} {} {name} {}", pid.as_raw(), path.clone().unwrap_or_default());
                                }
                                if k > 0 && count == k {
                                    at = format!("{name} {}", path.unwrap_or_default());
                                    killed = true;
                                    let _ = kill(main, Signal::SIGKILL);
                                    continue;
                                }
                            }
                        }
                    }
                }
                let _ = ptrace::syscall(pid, None);
            }
            WaitStatus::PtraceEvent(pid, _, _) => {
                let _ = ptrace::syscall(pid, None);
            }
            WaitStatus::Stopped(pid, sig) => {
                if killed {
                    continue;
                }
                // a new thread reports with SIGSTOP before it runs: not a signal to deliver
                let fresh = seen.insert(pid.as_raw());
                if sig == Signal::SIGSTOP && (fresh || pid != main) {
                    let _ = ptrace::syscall(pid, None);
                } else {
                    let _ = ptrace::syscall(pid, Some(sig));
                }
            }
            WaitStatus::Exited(pid, code) => {
                if pid == main {
                    exit_code = Some(code);
                }
            }
            WaitStatus::Signaled(pid, _, _) => {
                if pid == main {
                    exit_code = None;
                }
            }
            _ => {}
        }
    }
    if let Some(mut l) = log {
        let _ = l.flush();
    }
    println!("{}", json!({"killed": killed, "count": count, "exit": exit_code, "at": at}));
    std::process::exit(0);
}

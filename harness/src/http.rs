//! Raw HTTP/1.1 over the store's unix socket: the worker's HTTP mode (every store operation of a
//! behaviour goes through `xs::api::serve`) and the malformed request classes of C13.
use std::io::{Read, Write};
use std::os::unix::net::UnixStream;
use std::path::Path;
use std::time::Duration;

use base64::Engine;
use serde_json::{json, Value};

pub struct Resp {
    pub status: i64, // -1: connection closed without a response
    pub headers: Vec<(String, String)>,
    pub body: Vec<u8>,
}

fn dechunk(mut b: &[u8]) -> Vec<u8> {
    let mut out = vec![];
    loop {
        let Some(p) = b.windows(2).position(|w| w == b"\r\n") else { break };
        let line = String::from_utf8_lossy(&b[..p]).to_string();
        let n = usize::from_str_radix(line.split(';').next().unwrap_or("").trim(), 16).unwrap_or(0);
        b = &b[p + 2..];
        if n == 0 || b.len() < n {
            break;
        }
        out.extend_from_slice(&b[..n]);
        b = &b[n..];
        if b.starts_with(b"\r\n") {
            b = &b[2..];
        }
    }
    out
}

pub fn raw(sock: &Path, request: &[u8]) -> Resp {
    let none = Resp { status: -1, headers: vec![], body: vec![] };
    let Ok(mut s) = UnixStream::connect(sock) else { return Resp { status: -2, ..none } };
    let _ = s.set_read_timeout(Some(Duration::from_secs(15)));
    if s.write_all(request).is_err() {
        return none;
    }
    let _ = s.flush();
    read_response(&mut s)
}

/// a request whose body arrives in two parts with something else happening in between: head (Connection: close,
/// Transfer-Encoding: chunked) and the first chunk now
pub fn slow_open(sock: &Path, target: &str, first: &[u8]) -> Option<UnixStream> {
    let mut s = UnixStream::connect(sock).ok()?;
    let _ = s.set_read_timeout(Some(Duration::from_secs(15)));
    let mut r: Vec<u8> =
        format!("POST {target} HTTP/1.1\r\nHost: localhost\r\nConnection: close\r\nTransfer-Encoding: chunked\r\n\r\n").into_bytes();
    r.extend_from_slice(format!("{:x}\r\n", first.len()).as_bytes());
    r.extend_from_slice(first);
    r.extend_from_slice(b"\r\n");
    s.write_all(&r).ok()?;
    let _ = s.flush();
    Some(s)
}

/// ... the rest of the body and the response
pub fn slow_finish(mut s: UnixStream, rest: &[u8]) -> Resp {
    let mut r: Vec<u8> = vec![];
    if !rest.is_empty() {
        r.extend_from_slice(format!("{:x}\r\n", rest.len()).as_bytes());
        r.extend_from_slice(rest);
        r.extend_from_slice(b"\r\n");
    }
    r.extend_from_slice(b"0\r\n\r\n");
    if s.write_all(&r).is_err() {
        return Resp { status: -1, headers: vec![], body: vec![] };
    }
    let _ = s.flush();
    read_response(&mut s)
}

fn read_response(s: &mut UnixStream) -> Resp {
    let none = Resp { status: -1, headers: vec![], body: vec![] };
    let mut buf = vec![];
    let _ = s.read_to_end(&mut buf);
    let Some(p) = buf.windows(4).position(|w| w == b"\r\n\r\n") else { return none };
    let head = String::from_utf8_lossy(&buf[..p]).to_string();
    let mut lines = head.split("\r\n");
    let status = lines
        .next()
        .and_then(|l| l.split(' ').nth(1))
        .and_then(|c| c.parse::<i64>().ok())
        .unwrap_or(-1);
    let headers: Vec<(String, String)> = lines
        .filter_map(|l| l.split_once(':').map(|(k, v)| (k.trim().to_lowercase(), v.trim().to_string())))
        .collect();
    let mut body = buf[p + 4..].to_vec();
    if headers.iter().any(|(k, v)| k == "transfer-encoding" && v.to_lowercase().contains("chunked")) {
        body = dechunk(&body);
    }
    Resp { status, headers, body }
}

pub fn req(sock: &Path, method: &str, target: &str, headers: &[(&str, Vec<u8>)], body: &[u8]) -> Resp {
    let mut r: Vec<u8> = format!("{method} {target} HTTP/1.1\r\nHost: localhost\r\nConnection: close\r\n").into_bytes();
    for (k, v) in headers {
        r.extend_from_slice(k.as_bytes());
        r.extend_from_slice(b": ");
        r.extend_from_slice(v);
        r.extend_from_slice(b"\r\n");
    }
    // `Transfer-Encoding: chunked` among the headers: the body travels in chunks (what the project's own client sends),
    // an empty body as the terminating chunk alone
    if headers.iter().any(|(k, _)| k.eq_ignore_ascii_case("transfer-encoding")) {
        r.extend_from_slice(b"\r\n");
        for piece in body.chunks(3000) {
            r.extend_from_slice(format!("{:x}\r\n", piece.len()).as_bytes());
            r.extend_from_slice(piece);
            r.extend_from_slice(b"\r\n");
        }
        r.extend_from_slice(b"0\r\n\r\n");
        return raw(sock, &r);
    }
    if !body.is_empty() || method == "POST" {
        r.extend_from_slice(format!("Content-Length: {}\r\n", body.len()).as_bytes());
    }
    r.extend_from_slice(b"\r\n");
    r.extend_from_slice(body);
    raw(sock, &r)
}

fn enc(s: &str) -> String {
    url::form_urlencoded::byte_serialize(s.as_bytes()).collect()
}

fn parse_ndjson(b: &[u8]) -> Option<Vec<Value>> {
    let mut v = vec![];
    for l in String::from_utf8_lossy(b).lines() {
        if l.trim().is_empty() {
            continue;
        }
        v.push(serde_json::from_str(l).ok()?);
    }
    Some(v)
}

fn parse_sse(b: &[u8]) -> Option<Vec<Value>> {
    let mut v = vec![];
    let text = String::from_utf8_lossy(b).to_string();
    for block in text.split("\n\n") {
        if block.trim().is_empty() {
            continue;
        }
        let mut id = None;
        let mut data = None;
        for l in block.lines() {
            if let Some(x) = l.strip_prefix("id: ") {
                id = Some(x.to_string());
            } else if let Some(x) = l.strip_prefix("data: ") {
                data = Some(x.to_string());
            }
        }
        let f: Value = serde_json::from_str(&data?).ok()?;
        if f["id"].as_str() != id.as_deref() {
            return None;
        }
        v.push(f);
    }
    Some(v)
}

/// one store operation through the HTTP API; same response shape as the direct worker, plus `status`
pub fn exec(sock: &Path, op: &str, rq: &Value, nth: u64) -> Option<Value> {
    Some(match op {
        "append" => {
            let mut q = vec![];
            if let Some(t) = rq["ttl"].as_str() {
                q.push(format!("ttl={}", enc(t)));
            }
            if let Some(c) = rq["ctx"].as_str() {
                // the zero context is what the API assumes when the parameter is absent
                if c != "0000000000000000000000000" || nth % 2 == 0 {
                    q.push(format!("context={c}"));
                }
            }
            let target = format!("/{}{}{}", rq["topic"].as_str().unwrap_or(""), if q.is_empty() { "" } else { "?" }, q.join("&"));
            let mut headers: Vec<(&str, Vec<u8>)> = vec![];
            if !rq["meta"].is_null() {
                let js = serde_json::to_string(&rq["meta"]).unwrap();
                headers.push(("xs-meta", base64::prelude::BASE64_STANDARD.encode(js).into_bytes()));
            }
            let body = rq["content"]
                .as_str()
                .map(|b| base64::prelude::BASE64_STANDARD.decode(b).unwrap())
                .unwrap_or_default();
            // the body with a length, or in chunks (an absent body: `Content-Length: 0`, or the terminating chunk alone)
            if nth % 3 == 0 {
                headers.push(("Transfer-Encoding", b"chunked".to_vec()));
            }
            let r = req(sock, "POST", &target, &headers, &body);
            if (200..=299).contains(&r.status) {
                match serde_json::from_slice::<Value>(&r.body) {
                    Ok(f) => json!({"ok": true, "frame": f, "status": r.status}),
                    Err(_) => json!({"ok": false, "err": "unparsable body", "status": -3}),
                }
            } else {
                json!({"ok": false, "err": String::from_utf8_lossy(&r.body), "status": r.status})
            }
        }
        "import" => {
            let body = serde_json::to_vec(&rq["frame"]).unwrap();
            let r = req(sock, "POST", "/import", &[], &body);
            json!({"ok": (200..=299).contains(&r.status), "status": r.status, "err": String::from_utf8_lossy(&r.body)})
        }
        "remove" => {
            let r = req(sock, "DELETE", &format!("/{}", rq["id"].as_str().unwrap()), &[], &[]);
            json!({"ok": (200..=299).contains(&r.status), "status": r.status})
        }
        "read" => {
            let mut q = vec![];
            if let Some(c) = rq["ctx"].as_str() {
                q.push(format!("context-id={c}"));
            }
            if let Some(c) = rq["last"].as_str() {
                q.push(format!("last-id={c}"));
            }
            if let Some(n) = rq["limit"].as_u64() {
                q.push(format!("limit={n}"));
            }
            if rq["tail"].as_bool().unwrap_or(false) {
                q.push("tail=true".to_string());
            }
            let target = format!("/{}{}", if q.is_empty() { "" } else { "?" }, q.join("&"));
            let sse = rq["path"].as_str() == Some("stream");
            let both = nth % 3 == 0;
            let nd = if !sse || both { Some(req(sock, "GET", &target, &[], &[])) } else { None };
            let ev = if sse || both {
                Some(req(sock, "GET", &target, &[("Accept", b"text/event-stream".to_vec())], &[]))
            } else {
                None
            };
            let ndf = nd.as_ref().map(|r| if r.status == 200 { parse_ndjson(&r.body) } else { None });
            let evf = ev.as_ref().map(|r| if r.status == 200 { parse_sse(&r.body) } else { None });
            let status = if sse { ev.as_ref().unwrap().status } else { nd.as_ref().unwrap().status };
            let frames = if sse { evf.clone().flatten() } else { ndf.clone().flatten() };
            let mut out = json!({"frames": frames.clone().unwrap_or_default(), "status": if frames.is_some() { status } else { -3 }});
            if both {
                // reads may collect expired frames as a side effect, never change what the next read returns
                out["renderings_agree"] = json!(ndf.flatten() == evf.flatten());
            }
            out
        }
        "get" => {
            let r = req(sock, "GET", &format!("/{}", rq["id"].as_str().unwrap()), &[], &[]);
            match r.status {
                s @ 200..=299 => json!({"frame": serde_json::from_slice::<Value>(&r.body).unwrap_or(json!({"unparsable": true})), "status": s}),
                s => json!({"frame": null, "status": s}),
            }
        }
        "head" => {
            let c = rq["ctx"].as_str().unwrap();
            let q = if c == "0000000000000000000000000" && nth % 2 == 1 { String::new() } else { format!("?context={c}") };
            let r = req(sock, "GET", &format!("/head/{}{}", rq["topic"].as_str().unwrap_or(""), q), &[], &[]);
            match r.status {
                s @ 200..=299 => json!({"frame": serde_json::from_slice::<Value>(&r.body).unwrap_or(json!({"unparsable": true})), "status": s}),
                s => json!({"frame": null, "status": s}),
            }
        }
        "cas_put" => {
            let body = base64::prelude::BASE64_STANDARD.decode(rq["content"].as_str().unwrap()).unwrap();
            let r = req(sock, "POST", "/cas", &[], &body);
            json!({"hash": String::from_utf8_lossy(&r.body), "status": r.status})
        }
        "cas_read" => {
            let r = req(sock, "GET", &format!("/cas/{}", rq["hash"].as_str().unwrap()), &[], &[]);
            if r.status == 200 {
                json!({"content": base64::prelude::BASE64_STANDARD.encode(&r.body), "status": 200})
            } else {
                json!({"err": String::from_utf8_lossy(&r.body), "status": r.status})
            }
        }
        _ => return None,
    })
}

pub const BAD_CLASSES: &[&str] = &[
    "bad_last_id", "bad_context_id", "bad_limit_neg", "bad_limit_word", "bad_follow", "bad_ctx_append",
    "unknown_ctx_append", "xsctx_outside_zero", "ttl_head0", "ttl_time_word", "ttl_bogus", "ttl_head_neg",
    "ttl_time_overflow", "ttl_head_overflow", "meta_bad_b64", "meta_bad_utf8", "meta_bad_json", "meta_non_ascii",
    "get_bad_id", "get_short_id", "delete_bad_id", "head_bad_ctx", "cas_empty", "cas_bad_hash", "cas_bad_digest",
    "cas_absent", "cas_empty_chunked", "cas_unpadded", "cas_unpadded_present", "cas_short_digest", "cas_sha512_absent", "cas_sha1", "cas_empty_digest",
    "cas_two_hashes", "cas_urlsafe_digest", "cas_trailing_slash", "import_not_json", "import_two_second_bad", "import_not_frame", "import_nul_topic", "put_other", "patch_root",
    "get_unknown_id", "delete_unknown_id", "head_unknown_topic",
];

/// a malformed (or unanswerable) request of the given class: (response, expected status class)
pub fn bad(sock: &Path, class: &str) -> (Resp, &'static str) {
    let unknown = "03d4q1qhbiv09ovtuhokw5yxv";
    let b64 = |b: &[u8]| base64::prelude::BASE64_STANDARD.encode(b).into_bytes();
    match class {
        "bad_last_id" => (req(sock, "GET", "/?last-id=zzz", &[], &[]), "4xx"),
        "bad_context_id" => (req(sock, "GET", "/?context-id=zzz", &[], &[]), "4xx"),
        "bad_limit_neg" => (req(sock, "GET", "/?limit=-1", &[], &[]), "4xx"),
        "bad_limit_word" => (req(sock, "GET", "/?limit=ten", &[], &[]), "4xx"),
        "bad_follow" => (req(sock, "GET", "/?follow=maybe", &[], &[]), "4xx"),
        "bad_ctx_append" => (req(sock, "POST", "/t?context=zzz", &[], b"x"), "4xx"),
        "unknown_ctx_append" => (req(sock, "POST", &format!("/t?context={unknown}"), &[], b"x"), "4xx"),
        "xsctx_outside_zero" => (req(sock, "POST", &format!("/xs.context?context={unknown}"), &[], &[]), "4xx"),
        "ttl_head0" => (req(sock, "POST", "/t?ttl=head:0", &[], &[]), "4xx"),
        "ttl_time_word" => (req(sock, "POST", "/t?ttl=time:soon", &[], &[]), "4xx"),
        "ttl_bogus" => (req(sock, "POST", "/t?ttl=bogus", &[], &[]), "4xx"),
        "ttl_head_neg" => (req(sock, "POST", "/t?ttl=head:-1", &[], &[]), "4xx"),
        "ttl_time_overflow" => (req(sock, "POST", "/t?ttl=time:99999999999999999999", &[], &[]), "4xx"),
        "ttl_head_overflow" => (req(sock, "POST", "/t?ttl=head:4294967296", &[], &[]), "4xx"),
        "meta_bad_b64" => (req(sock, "POST", "/t", &[("xs-meta", b"!!!not-base64".to_vec())], &[]), "4xx"),
        "meta_bad_utf8" => (req(sock, "POST", "/t", &[("xs-meta", b64(&[0xff, 0xfe, 0x80]))], &[]), "4xx"),
        "meta_bad_json" => (req(sock, "POST", "/t", &[("xs-meta", b64(b"{not json"))], &[]), "4xx"),
        "meta_non_ascii" => (req(sock, "POST", "/t", &[("xs-meta", vec![b'e', 0xe9, b'x'])], b"body"), "4xx"),
        "get_bad_id" => (req(sock, "GET", "/not-an-id-at-all", &[], &[]), "4xx"),
        "get_short_id" => (req(sock, "GET", "/03d4q1qhbiv09ovtuhokw5yx", &[], &[]), "4xx"),
        "delete_bad_id" => (req(sock, "DELETE", "/not-an-id", &[], &[]), "4xx"),
        "head_bad_ctx" => (req(sock, "GET", "/head/t?context=zzz", &[], &[]), "4xx"),
        "cas_empty" => (req(sock, "POST", "/cas", &[], &[]), "4xx"),
        "cas_empty_chunked" => (req(sock, "POST", "/cas", &[("Transfer-Encoding", b"chunked".to_vec())], &[]), "4xx"),
        "cas_bad_hash" => (req(sock, "GET", "/cas/notahash", &[], &[]), "4xx"),
        "cas_bad_digest" => (req(sock, "GET", "/cas/sha256-!!!!", &[], &[]), "4xx"),
        "cas_absent" => (
            req(sock, "GET", "/cas/sha256-AAAAAAAAAAAAAAAAAAAAAAAAAAAAAAAAAAAAAAAAAAA=", &[], &[]),
            "4xx",
        ),
        "cas_unpadded" => (
            req(sock, "GET", "/cas/sha256-AAAAAAAAAAAAAAAAAAAAAAAAAAAAAAAAAAAAAAAAAAA", &[], &[]),
            "4xx",
        ),
        "cas_unpadded_present" => {
            // the digest of content that IS stored, with its padding stripped
            let put = req(sock, "POST", "/cas", &[], b"padding probe");
            let h = String::from_utf8_lossy(&put.body).trim().trim_end_matches('=').to_string();
            (req(sock, "GET", &format!("/cas/{h}"), &[], &[]), "4xx")
        }
        "cas_short_digest" => (req(sock, "GET", "/cas/sha256-AAAA", &[], &[]), "4xx"),
        "cas_sha512_absent" => (
            req(sock, "GET", "/cas/sha512-AAAAAAAAAAAAAAAAAAAAAAAAAAAAAAAAAAAAAAAAAAAAAAAAAAAAAAAAAAAAAAAAAAAAAAAAAAAAAAAAAAAAAA==", &[], &[]),
            "4xx",
        ),
        "cas_sha1" => (req(sock, "GET", "/cas/sha1-AAAAAAAAAAAAAAAAAAAAAAAAAAA=", &[], &[]), "4xx"),
        "cas_empty_digest" => (req(sock, "GET", "/cas/sha256-", &[], &[]), "4xx"),
        "cas_two_hashes" => (
            req(sock, "GET", "/cas/sha256-AAAAAAAAAAAAAAAAAAAAAAAAAAAAAAAAAAAAAAAAAAA=%20sha1-AAAA", &[], &[]),
            "4xx",
        ),
        "cas_urlsafe_digest" => (
            req(sock, "GET", "/cas/sha256-AAAA_AAA-AAAAAAAAAAAAAAAAAAAAAAAAAAAAAAAAAA=", &[], &[]),
            "4xx",
        ),
        "cas_trailing_slash" => (req(sock, "GET", "/cas/", &[], &[]), "4xx"),
        "import_not_json" => (req(sock, "POST", "/import", &[], b"{nope"), "4xx"),
        // two frames in one body, the second one unacceptable: refused, and nothing of it stored
        "import_two_second_bad" => (
            req(sock, "POST", "/import", &[], format!("{{\"topic\":\"two.a\",\"context_id\":\"0000000000000000000000000\",\"id\":\"03d4q1qhbiv09ovtuhokw5yxw\",\"hash\":null,\"meta\":null,\"ttl\":\"forever\"}}\n{{\"topic\":\"a\\u0000b\",\"context_id\":\"0000000000000000000000000\",\"id\":\"03d4q1qhbiv09ovtuhokw5yxx\",\"hash\":null,\"meta\":null,\"ttl\":\"forever\"}}").as_bytes()),
            "4xx",
        ),
        "import_not_frame" => (req(sock, "POST", "/import", &[], b"{\"a\": 1}"), "4xx"),
        "import_nul_topic" => (
            req(sock, "POST", "/import", &[], format!("{{\"topic\":\"a\\u0000b\",\"context_id\":\"0000000000000000000000000\",\"id\":\"{unknown}\",\"hash\":null,\"meta\":null,\"ttl\":\"forever\"}}").as_bytes()),
            "4xx",
        ),
        "put_other" => (req(sock, "PUT", "/x", &[], b"x"), "4xx"),
        "patch_root" => (req(sock, "PATCH", "/", &[], b"x"), "4xx"),
        "get_unknown_id" => (req(sock, "GET", &format!("/{unknown}"), &[], &[]), "404"),
        "delete_unknown_id" => (req(sock, "DELETE", &format!("/{unknown}"), &[], &[]), "2xx"),
        "head_unknown_topic" => (req(sock, "GET", "/head/never.used.topic", &[], &[]), "404"),
        _ => (Resp { status: -9, headers: vec![], body: vec![] }, "4xx"),
    }
}

fn main() {
    xs::verif::set_log(true);
    println!("ok");
}

mod cli;
mod codec;
mod http;
mod nu;
mod durrun;
mod procrun;
mod routes;
mod sched;
mod storegen;
mod storerun;
mod worker;

use std::io::{BufRead, Write};
use std::path::PathBuf;
use std::sync::atomic::{AtomicUsize, Ordering};
use std::sync::{Arc, Mutex};

use serde_json::Value;

fn arg_val(args: &[String], name: &str) -> Option<String> {
    args.iter().position(|a| a == name).and_then(|i| args.get(i + 1).cloned())
}

fn scratch_root() -> PathBuf {
    let base = std::env::var("XSV_SCRATCH").unwrap_or("/dev/shm".to_string());
    PathBuf::from(base).join(format!("xsv.{}", std::process::id()))
}

fn main() {
    let args: Vec<String> = std::env::args().collect();
    let cmd = args.get(1).map(|s| s.as_str()).unwrap_or("");
    match cmd {
        "worker" => {
            let dir = PathBuf::from(&args[2]);
            let clock = arg_val(&args, "--clock").map(|s| s.parse().unwrap());
            worker::run(
                dir,
                clock,
                args.iter().any(|a| a == "--gate-gc"),
                args.iter().any(|a| a == "--http"),
                args.iter().any(|a| a == "--serve"),
            );
        }
        "dur-child" => durrun::child(&args),
        "dur-recover" => durrun::recover(&args),
        "dur-killat" => durrun::killat(&args),
        "store-gen" => {
            let seed: u64 = arg_val(&args, "--seed").map(|s| s.parse().unwrap()).unwrap_or(0);
            let n: i64 = arg_val(&args, "--n").map(|s| s.parse().unwrap()).unwrap_or(10);
            let ops: usize = arg_val(&args, "--ops").map(|s| s.parse().unwrap()).unwrap_or(14);
            let b0: i64 = arg_val(&args, "--b0").map(|s| s.parse().unwrap()).unwrap_or(100000);
            let out = arg_val(&args, "--out").expect("--out");
            let mut f = std::io::BufWriter::new(std::fs::File::create(out).unwrap());
            for i in 0..n {
                writeln!(f, "{}", storegen::gen(seed, b0 + i, ops)).unwrap();
            }
        }
        "store-replay" => {
            let inp = arg_val(&args, "--in").expect("--in");
            let out = arg_val(&args, "--out").expect("--out");
            let jobs: usize = arg_val(&args, "--jobs").map(|s| s.parse().unwrap()).unwrap_or(8);
            let probes: usize = arg_val(&args, "--probes").map(|s| s.parse().unwrap()).unwrap_or(3);
            let chunk: usize = arg_val(&args, "--chunk").map(|s| s.parse().unwrap()).unwrap_or(0);
            let gate_gc = !args.iter().any(|a| a == "--no-gate-gc");
            let http = args.iter().any(|a| a == "--http");
            let behs: Vec<Value> = std::io::BufReader::new(std::fs::File::open(inp).unwrap())
                .lines()
                .map(|l| l.unwrap())
                .filter(|l| !l.trim().is_empty())
                .map(|l| serde_json::from_str(&l).unwrap())
                .collect();
            let root = scratch_root();
            let n = behs.len();
            let behs = Arc::new(behs);
            let next = Arc::new(AtomicUsize::new(0));
            let results: Arc<Mutex<Vec<Option<Vec<Value>>>>> = Arc::new(Mutex::new(vec![None; n]));
            let mut hs = vec![];
            for _ in 0..jobs {
                let (behs, next, results, root) = (behs.clone(), next.clone(), results.clone(), root.clone());
                hs.push(std::thread::spawn(move || loop {
                    let i = next.fetch_add(1, Ordering::SeqCst);
                    if i >= behs.len() {
                        break;
                    }
                    let evs = storerun::run_behaviour(&root.join(format!("b{i}")), &behs[i], gate_gc, probes, http);
                    results.lock().unwrap()[i] = Some(evs);
                }));
            }
            for h in hs {
                h.join().unwrap();
            }
            let _ = std::fs::remove_dir_all(&root);
            let results = results.lock().unwrap();
            // one output file, or chunks of `chunk` behaviours: <out>.<k>
            let mut nev = 0usize;
            let mut file: Option<std::io::BufWriter<std::fs::File>> = None;
            for (i, r) in results.iter().enumerate() {
                if file.is_none() || (chunk > 0 && i % chunk == 0) {
                    let name = if chunk > 0 { format!("{out}.{}", i / chunk) } else { out.clone() };
                    file = Some(std::io::BufWriter::new(std::fs::File::create(name).unwrap()));
                }
                for e in r.as_ref().unwrap() {
                    writeln!(file.as_mut().unwrap(), "{}", e).unwrap();
                    nev += 1;
                }
            }
            println!("{{\"behaviours\": {n}, \"events\": {nev}}}");
        }
        "routes-run" => {
            let inp = arg_val(&args, "--in").expect("--in");
            let out = arg_val(&args, "--out").expect("--out");
            let jobs: usize = arg_val(&args, "--jobs").map(|s| s.parse().unwrap()).unwrap_or(8);
            routes::run(&inp, &out, jobs);
        }
        "codec-run" => {
            let inp = arg_val(&args, "--in").expect("--in");
            let out = arg_val(&args, "--out").expect("--out");
            let seed: u64 = arg_val(&args, "--seed").map(|s| s.parse().unwrap()).unwrap_or(0);
            codec::run(&inp, &out, seed);
        }
        "sched-one" => {
            let mut line = String::new();
            std::io::stdin().read_line(&mut line).unwrap();
            let sc: Value = serde_json::from_str(&line).unwrap();
            let evs = sched::run_one(&sc);
            let stdout = std::io::stdout();
            let mut out = stdout.lock();
            for e in evs {
                writeln!(out, "{}", e).unwrap();
            }
            out.flush().unwrap();
            std::process::exit(0);
        }
        "sched-run" => {
            let inp = arg_val(&args, "--in").expect("--in");
            let out = arg_val(&args, "--out").expect("--out");
            let jobs: usize = arg_val(&args, "--jobs").map(|s| s.parse().unwrap()).unwrap_or(8);
            let chunk: usize = arg_val(&args, "--chunk").map(|s| s.parse().unwrap()).unwrap_or(0);
            let lines: Vec<String> = std::io::BufReader::new(std::fs::File::open(inp).unwrap())
                .lines()
                .map(|l| l.unwrap())
                .filter(|l| !l.trim().is_empty())
                .collect();
            let n = lines.len();
            let lines = Arc::new(lines);
            let next = Arc::new(AtomicUsize::new(0));
            let results: Arc<Mutex<Vec<Option<String>>>> = Arc::new(Mutex::new(vec![None; n]));
            let mut hs = vec![];
            for _ in 0..jobs {
                let (lines, next, results) = (lines.clone(), next.clone(), results.clone());
                hs.push(std::thread::spawn(move || loop {
                    let i = next.fetch_add(1, Ordering::SeqCst);
                    if i >= lines.len() {
                        break;
                    }
                    let exe = std::env::current_exe().unwrap();
                    let mut child = std::process::Command::new(exe)
                        .arg("sched-one")
                        .stdin(std::process::Stdio::piped())
                        .stdout(std::process::Stdio::piped())
                        .stderr(std::process::Stdio::null())
                        .spawn()
                        .unwrap();
                    {
                        let mut si = child.stdin.take().unwrap();
                        writeln!(si, "{}", lines[i]).unwrap();
                    }
                    let o = child.wait_with_output().unwrap();
                    let sc: Value = serde_json::from_str(&lines[i]).unwrap();
                    let mut text = format!("{}\n", serde_json::json!({"e": "reset", "s": sc["s"]}));
                    if o.status.success() {
                        text.push_str(&String::from_utf8_lossy(&o.stdout));
                    } else {
                        text.push_str(&format!("{}\n", serde_json::json!({"e": "harness_died", "s": sc["s"]})));
                    }
                    results.lock().unwrap()[i] = Some(text);
                }));
            }
            for h in hs {
                h.join().unwrap();
            }
            let results = results.lock().unwrap();
            let mut file: Option<std::io::BufWriter<std::fs::File>> = None;
            let mut nev = 0;
            for (i, r) in results.iter().enumerate() {
                if file.is_none() || (chunk > 0 && i % chunk == 0) {
                    let name = if chunk > 0 { format!("{out}.{}", i / chunk) } else { out.clone() };
                    file = Some(std::io::BufWriter::new(std::fs::File::create(name).unwrap()));
                }
                let t = r.as_ref().unwrap();
                nev += t.lines().count();
                file.as_mut().unwrap().write_all(t.as_bytes()).unwrap();
            }
            println!("{{\"scenarios\": {n}, \"events\": {nev}}}");
        }
        "proc-run" => {
            let inp = arg_val(&args, "--in").expect("--in");
            let out = arg_val(&args, "--out").expect("--out");
            let jobs: usize = arg_val(&args, "--jobs").map(|s| s.parse().unwrap()).unwrap_or(8);
            let chunk: usize = arg_val(&args, "--chunk").map(|s| s.parse().unwrap()).unwrap_or(0);
            let scs: Vec<Value> = std::io::BufReader::new(std::fs::File::open(inp).unwrap())
                .lines()
                .map(|l| l.unwrap())
                .filter(|l| !l.trim().is_empty())
                .map(|l| serde_json::from_str(&l).unwrap())
                .collect();
            let root = scratch_root();
            std::fs::create_dir_all(&root).unwrap();
            let n = scs.len();
            let scs = Arc::new(scs);
            let next = Arc::new(AtomicUsize::new(0));
            let results: Arc<Mutex<Vec<Option<Vec<Value>>>>> = Arc::new(Mutex::new(vec![None; n]));
            let mut hs = vec![];
            for _ in 0..jobs {
                let (scs, next, results, root) = (scs.clone(), next.clone(), results.clone(), root.clone());
                hs.push(std::thread::spawn(move || loop {
                    let i = next.fetch_add(1, Ordering::SeqCst);
                    if i >= scs.len() {
                        break;
                    }
                    // a panic of the runner itself is a tool error for that scenario, not a verdict
                    let r = std::panic::catch_unwind(std::panic::AssertUnwindSafe(|| procrun::run_scenario(&root, &scs[i])));
                    let evs = r.unwrap_or_else(|_| {
                        vec![
                            serde_json::json!({"e": "reset", "s": scs[i]["s"]}),
                            serde_json::json!({"e": "harness_died", "s": scs[i]["s"], "why": "runner panic"}),
                        ]
                    });
                    results.lock().unwrap()[i] = Some(evs);
                }));
            }
            for h in hs {
                h.join().unwrap();
            }
            let _ = std::fs::remove_dir_all(&root);
            let results = results.lock().unwrap();
            let mut nev = 0usize;
            let mut nfr = 0usize;
            let mut file: Option<std::io::BufWriter<std::fs::File>> = None;
            for (i, r) in results.iter().enumerate() {
                if file.is_none() || (chunk > 0 && i % chunk == 0) {
                    let name = if chunk > 0 { format!("{out}.{}", i / chunk) } else { out.clone() };
                    file = Some(std::io::BufWriter::new(std::fs::File::create(name).unwrap()));
                }
                for e in r.as_ref().unwrap() {
                    writeln!(file.as_mut().unwrap(), "{}", e).unwrap();
                    nev += 1;
                    if e["e"] == "frame" {
                        nfr += 1;
                    }
                }
            }
            println!("{{\"scenarios\": {n}, \"events\": {nev}, \"frames\": {nfr}}}");
        }
        _ => {
            eprintln!("usage: xsv worker|store-gen|store-replay|sched-one|sched-run|dur-child|dur-recover|dur-killat ...");
            eprintln!("usage: xsv worker|store-gen|store-replay|sched-one|sched-run|proc-run ...");
            std::process::exit(2);
        }
    }
}

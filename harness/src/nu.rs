//! The store operations executed by nu scripts through the commands xs gives to handler, command and
//! generator scripts (src/nu/commands: .append .cat .head .get .remove .cas; src/nu/util.rs: values crossing
//! into nu and back, pipeline content into CAS), wired per context as src/commands/serve.rs does. Same
//! response shape as `http::exec`; what these commands cannot express (all-contexts reads, import, tail,
//! POST /cas) is left to the Store API.
use std::collections::HashMap;

use base64::Engine as _;
use nu_protocol::{PipelineData, Record, Span, Value as NuValue};
use serde_json::{json, Value};
use xs::nu::commands;
use xs::store::Store;

pub struct NuFront {
    store: Store,
    base: xs::nu::Engine,
    per_ctx: HashMap<String, xs::nu::Engine>,
}

/// a nu string literal
fn lit(s: &str) -> String {
    let mut o = String::from("\"");
    for c in s.chars() {
        match c {
            '"' => o.push_str("\\\""),
            '\\' => o.push_str("\\\\"),
            '\n' => o.push_str("\\n"),
            '\r' => o.push_str("\\r"),
            '\t' => o.push_str("\\t"),
            c => o.push(c),
        }
    }
    o.push('"');
    o
}

impl NuFront {
    pub fn new(store: Store) -> NuFront {
        NuFront { store, base: xs::nu::Engine::new().expect("engine"), per_ctx: HashMap::new() }
    }

    /// the engine a script running for `ctx` sees
    fn engine(&mut self, ctx: &str) -> Option<xs::nu::Engine> {
        if let Some(e) = self.per_ctx.get(ctx) {
            return Some(e.clone());
        }
        let id: scru128::Scru128Id = ctx.parse().ok()?;
        let mut e = self.base.clone();
        e.add_commands(vec![
            Box::new(commands::cas_command::CasCommand::new(self.store.clone())),
            Box::new(commands::get_command::GetCommand::new(self.store.clone())),
            Box::new(commands::remove_command::RemoveCommand::new(self.store.clone())),
            Box::new(commands::cat_command::CatCommand::new(self.store.clone(), id)),
            Box::new(commands::head_command::HeadCommand::new(self.store.clone(), id)),
            Box::new(commands::append_command::AppendCommand::new(self.store.clone(), id, json!({}))),
        ])
        .ok()?;
        self.per_ctx.insert(ctx.to_string(), e.clone());
        Some(e)
    }

    /// a frame record as a script sees it -> frame JSON; the ttl (not shown to scripts) is taken from the store
    fn frame_json(&self, v: &NuValue) -> Value {
        self.frame_json_or(v, Value::Null)
    }
    /// `absent_ttl`: the ttl to report for a frame the store does not hold (an ephemeral append's result)
    fn frame_json_or(&self, v: &NuValue, absent_ttl: Value) -> Value {
        let mut j = xs::nu::value_to_json(v);
        if let Some(o) = j.as_object_mut() {
            let ttl = o
                .get("id")
                .and_then(|i| i.as_str())
                .and_then(|i| i.parse::<scru128::Scru128Id>().ok())
                .and_then(|i| self.store.get(&i))
                .map(|f| serde_json::to_value(&f).unwrap()["ttl"].clone())
                .unwrap_or(absent_ttl);
            o.insert("ttl".into(), ttl);
            o.entry("hash").or_insert(Value::Null);
            o.entry("meta").or_insert(Value::Null);
        }
        j
    }

    pub fn exec(&mut self, op: &str, rq: &Value, nth: u64) -> Option<Value> {
        let span = Span::unknown();
        match op {
            "append" => {
                let ctx = rq["ctx"].as_str()?;
                // either the script runs for the context, or it runs for the system context and names the context
                let explicit = nth % 2 == 0;
                let eng = self.engine(if explicit { "0000000000000000000000000" } else { ctx })?;
                let mut rec = Record::new();
                let content = match rq["content"].as_str() {
                    None => NuValue::nothing(span),
                    Some(b) => {
                        let bytes = base64::prelude::BASE64_STANDARD.decode(b).unwrap();
                        // text reaches `.append` as a string, anything else as binary
                        match (nth % 3 == 0, String::from_utf8(bytes.clone())) {
                            (true, Ok(s)) => NuValue::string(s, span),
                            _ => NuValue::binary(bytes, span),
                        }
                    }
                };
                rec.push("content", content);
                rec.push("meta", xs::nu::util::json_to_value(&rq["meta"], span));
                let mut script = format!("let req = $in; $req.content | .append {}", lit(rq["topic"].as_str().unwrap_or("")));
                if !rq["meta"].is_null() {
                    script.push_str(" --meta $req.meta");
                }
                if let Some(t) = rq["ttl"].as_str() {
                    script.push_str(&format!(" --ttl {}", lit(t)));
                }
                if explicit {
                    script.push_str(&format!(" --context {}", lit(ctx)));
                }
                let res = eng
                    .eval(PipelineData::Value(NuValue::record(rec, span), None), script)
                    .and_then(|p| p.into_value(span).map_err(Box::new));
                Some(match res {
                    Ok(v) => json!({"ok": true, "frame": self.frame_json_or(&v, rq["ttl"].clone()), "status": 200}),
                    Err(e) => json!({"ok": false, "err": format!("{e:?}"), "status": 400}),
                })
            }
            "read" => {
                // `.cat` reads the script's own context, from the beginning or after an id, up to a limit
                let ctx = rq["ctx"].as_str()?;
                if rq["tail"].as_bool().unwrap_or(false) {
                    return None;
                }
                let eng = self.engine(ctx)?;
                let mut script = String::from(".cat");
                if let Some(n) = rq["limit"].as_u64() {
                    script.push_str(&format!(" --limit {n}"));
                }
                if let Some(l) = rq["last"].as_str() {
                    script.push_str(&format!(" --last-id {}", lit(l)));
                }
                let res = eng.eval(PipelineData::empty(), script).and_then(|p| p.into_value(span).map_err(Box::new));
                Some(match res {
                    Ok(NuValue::List { vals, .. }) => {
                        json!({"frames": vals.iter().map(|v| self.frame_json(v)).collect::<Vec<_>>(), "status": 200})
                    }
                    Ok(_) => json!({"frames": [], "status": -3}),
                    Err(e) => json!({"frames": [], "status": 500, "err": format!("{e:?}")}),
                })
            }
            "get" => {
                let eng = self.engine("0000000000000000000000000")?;
                let res = eng
                    .eval(PipelineData::empty(), format!(".get {}", lit(rq["id"].as_str()?)))
                    .and_then(|p| p.into_value(span).map_err(Box::new));
                Some(match res {
                    Ok(v @ NuValue::Record { .. }) => json!({"frame": self.frame_json(&v), "status": 200}),
                    // "Frame not found" is how `.get` says 404
                    _ => json!({"frame": null, "status": 404}),
                })
            }
            "head" => {
                let ctx = rq["ctx"].as_str()?;
                let explicit = nth % 2 == 0;
                let eng = self.engine(if explicit { "0000000000000000000000000" } else { ctx })?;
                let mut script = format!(".head {}", lit(rq["topic"].as_str().unwrap_or("")));
                if explicit {
                    script.push_str(&format!(" --context {}", lit(ctx)));
                }
                let res = eng.eval(PipelineData::empty(), script).and_then(|p| p.into_value(span).map_err(Box::new));
                Some(match res {
                    Ok(v @ NuValue::Record { .. }) => json!({"frame": self.frame_json(&v), "status": 200}),
                    Ok(_) => json!({"frame": null, "status": 404}),
                    Err(e) => json!({"frame": null, "status": 500, "err": format!("{e:?}")}),
                })
            }
            "remove" => {
                let eng = self.engine("0000000000000000000000000")?;
                let res = eng.eval(PipelineData::empty(), format!(".remove {}", lit(rq["id"].as_str()?)));
                Some(json!({"ok": res.is_ok(), "status": if res.is_ok() { 204 } else { 500 }}))
            }
            "cas_read" => {
                let eng = self.engine("0000000000000000000000000")?;
                let res = eng
                    .eval(PipelineData::empty(), format!(".cas {}", lit(rq["hash"].as_str()?)))
                    .and_then(|p| p.into_value(span).map_err(Box::new));
                Some(match res {
                    Ok(NuValue::String { val, .. }) => {
                        json!({"content": base64::prelude::BASE64_STANDARD.encode(val.as_bytes()), "status": 200})
                    }
                    Ok(NuValue::Binary { val, .. }) => json!({"content": base64::prelude::BASE64_STANDARD.encode(&val), "status": 200}),
                    Ok(_) => json!({"err": "neither string nor binary", "status": -3}),
                    Err(e) => json!({"err": format!("{e:?}"), "status": 404}),
                })
            }
            _ => None,
        }
    }
}

//! proc-run: executes processor scenarios (handlers / commands / generators) against the real
//! serve loops running in a `worker --serve` process and records *the stream itself* as the
//! trace (DESIGN 5, "C14-C19: how processor logs are judged").
//!
//! A scenario is a list of client actions; every client action is an append.  Restart = the
//! worker process is killed (SIGKILL) or exits and a new one is started on the same directory.
//! After the last action the runner waits until nothing is owed any more (see `pending`), or a
//! long timeout, then a settle window, stops the server and dumps the whole stream with CAS
//! content through a plain worker.
//!
//! The `pending` computation is NOT a verdict.  It only decides how long to wait: as long as
//! some frame the observer would demand is absent the runner keeps waiting (up to the long
//! timeout), so that "absent" in the final trace means "absent after generous waiting".  The
//! quiescent event records whether the wait timed out; tools/groups/proc.py turns a "missing"
//! verdict of the observer on a run that did NOT time out into a tool error.
use std::collections::HashMap;
use std::io::{BufRead, BufReader, Write};
use std::path::Path;
use std::process::{Child, ChildStdin, ChildStdout, Command, Stdio};
use std::str::FromStr;
use std::time::{Duration, Instant};

use base64::Engine;
use scru128::Scru128Id;
use serde_json::{json, Value};

pub const BASE_MS: u64 = 1_700_000_000_000;
const ZERO: &str = "0000000000000000000000000";

pub struct PWorker {
    child: Child,
    stdin: ChildStdin,
    stdout: BufReader<ChildStdout>,
}

impl PWorker {
    pub fn spawn(dir: &Path, clock: u64, serve: bool) -> Result<(PWorker, Value), String> {
        let exe = std::env::current_exe().unwrap();
        let mut cmd = Command::new(exe);
        cmd.arg("worker").arg(dir).arg("--clock").arg(clock.to_string());
        if serve {
            cmd.arg("--serve");
        }
        let mut child = cmd
            .stdin(Stdio::piped())
            .stdout(Stdio::piped())
            .stderr(Stdio::null())
            .spawn()
            .map_err(|e| format!("spawn worker: {e}"))?;
        let stdin = child.stdin.take().unwrap();
        let stdout = BufReader::new(child.stdout.take().unwrap());
        let mut w = PWorker { child, stdin, stdout };
        let ready = w.read_line();
        if ready["ready"] != json!(true) {
            let _ = w.child.kill();
            let _ = w.child.wait();
            return Err(format!("worker did not come up: {ready}"));
        }
        Ok((w, ready))
    }
    fn read_line(&mut self) -> Value {
        let mut s = String::new();
        let n = self.stdout.read_line(&mut s).unwrap_or(0);
        if n == 0 {
            return json!({"died": true});
        }
        serde_json::from_str(&s).unwrap_or(json!({"garbled": s}))
    }
    pub fn call(&mut self, req: Value) -> Value {
        if writeln!(self.stdin, "{}", req).is_err() {
            return json!({"died": true});
        }
        let _ = self.stdin.flush();
        self.read_line()
    }
    pub fn stop(mut self) {
        let _ = self.call(json!({"op": "exit"}));
        let _ = self.child.wait();
    }
    pub fn kill(mut self) {
        let _ = self.child.kill();
        let _ = self.child.wait();
    }
}

#[derive(Clone, Debug)]
struct Fr {
    id: String,
    ctx: String,
    topic: String,
    name: String,
    suf: String,
    meta: Value,
    inc: usize,
}

fn split_topic(t: &str) -> (String, String) {
    match t.split_once('.') {
        Some((a, b)) => (a.to_string(), b.to_string()),
        None => (t.to_string(), String::new()),
    }
}

fn meta_str<'a>(m: &'a Value, k: &str) -> Option<&'a str> {
    m.get(k).and_then(|v| v.as_str())
}

struct Run<'a> {
    sc: &'a Value,
    dir: std::path::PathBuf,
    w: Option<PWorker>,
    clock: u64,
    ctxs: Vec<String>,
    /// action index -> id of the frame it appended
    act_id: HashMap<usize, String>,
    /// frame id -> (action index, kind)
    by_id: HashMap<String, (usize, String)>,
    frames: Vec<Fr>,
    inc: usize,
    /// last id in the store when incarnation k (k >= 1) opened it ("" = empty store)
    boundaries: Vec<String>,
    restarts: Vec<Value>,
    died: bool,
    /// the stream outgrew the scenario's bound (a processor feeding itself): stop acting, cut the trace
    overflow: bool,
    max_frames: usize,
    /// what was owed when a wait first ran into the long timeout: later waits of the run are short
    /// (the run already carries a "missing" verdict), and if those items arrive after all the run
    /// is discarded as a tool error (the machine was too slow to judge absence)
    first_timeout: Option<Vec<String>>,
    /// ephemeral frames seen by the server's follower, with the incarnation they were seen in
    ephs: Vec<Value>,
    nact: usize,
    log: Vec<Value>,
}

struct Timing {
    step_settle: Duration,
    final_settle: Duration,
    long: Duration,
    poll: Duration,
}

impl<'a> Run<'a> {
    fn kind(&self, k: &str) -> &Value {
        &self.sc["kinds"][k]
    }

    fn call(&mut self, req: Value) -> Value {
        match self.w.as_mut() {
            Some(w) => {
                let r = w.call(req);
                if r.get("died").is_some() {
                    self.died = true;
                }
                r
            }
            None => json!({"died": true}),
        }
    }

    fn subst(&self, script: &str) -> String {
        let mut out = String::new();
        let mut rest = script;
        while let Some(p) = rest.find("{{") {
            out.push_str(&rest[..p]);
            let q = rest[p..].find("}}").map(|q| p + q).unwrap_or(rest.len());
            let key = &rest[p + 2..q];
            let val = if let Some(n) = key.strip_prefix("ctx:") {
                self.ctxs.get(n.parse::<usize>().unwrap_or(0)).cloned().unwrap_or_default()
            } else if let Some(n) = key.strip_prefix("id:") {
                self.act_id.get(&n.parse::<usize>().unwrap_or(0)).cloned().unwrap_or(ZERO.to_string())
            } else if key == "badctx" {
                "03d4q1qhbiv09ovtuhokw5yxv".to_string()
            } else {
                String::new()
            };
            out.push_str(&val);
            rest = if q + 2 <= rest.len() { &rest[q + 2..] } else { "" };
        }
        out.push_str(rest);
        out
    }

    /// the append request of one client action (None for non-append actions)
    fn request(&self, a: &Value) -> Option<(Value, String)> {
        let kindname = a["k"].as_str().unwrap_or("").to_string();
        let c = a["c"].as_u64().unwrap_or(0) as usize;
        let ctx = self.ctxs.get(c).cloned().unwrap_or(ZERO.to_string());
        let n = a["n"].as_str().unwrap_or("");
        let b64 = |s: &str| base64::prelude::BASE64_STANDARD.encode(s.as_bytes());
        let script = || b64(&self.subst(self.kind(&kindname)["script"].as_str().unwrap_or("")));
        let mut req = match a["a"].as_str().unwrap_or("") {
            "reg" => json!({"op": "append", "topic": format!("{n}.register"), "ctx": ctx, "content": script()}),
            "unreg" => json!({"op": "append", "topic": format!("{n}.unregister"), "ctx": ctx}),
            "trig" => json!({"op": "append", "topic": a["t"].as_str().unwrap_or("t.x"), "ctx": ctx}),
            "define" => json!({"op": "append", "topic": format!("{n}.define"), "ctx": ctx, "content": script()}),
            "call" => json!({"op": "append", "topic": format!("{n}.call"), "ctx": ctx}),
            "spawn" => {
                let mut r = json!({"op": "append", "topic": format!("{n}.spawn"), "ctx": ctx});
                if !self.kind(&kindname)["nocontent"].as_bool().unwrap_or(false) {
                    r["content"] = json!(script());
                }
                if self.kind(&kindname)["duplex"].as_bool().unwrap_or(false) {
                    r["meta"] = json!({"duplex": true});
                }
                r
            }
            "send" => json!({"op": "append", "topic": format!("{n}.send"), "ctx": ctx,
                             "content": b64(a["v"].as_str().unwrap_or("s"))}),
            "raw" => json!({"op": "append", "topic": a["t"].as_str().unwrap_or("x"), "ctx": ctx}),
            _ => return None,
        };
        if let Some(m) = a.get("meta") {
            if !m.is_null() {
                let ms = self.subst(&m.to_string());
                req["meta"] = serde_json::from_str(&ms).unwrap_or(m.clone());
            }
        }
        if let Some(v) = a.get("content").and_then(|v| v.as_str()) {
            req["content"] = json!(b64(v));
        }
        if let Some(v) = a.get("ttl").and_then(|v| v.as_str()) {
            req["ttl"] = json!(v);
        }
        Some((req, kindname))
    }

    fn note(&mut self, idx: usize, kind: &str, resp: &Value) {
        if let Some(id) = resp["frame"]["id"].as_str() {
            self.act_id.insert(idx, id.to_string());
            self.by_id.insert(id.to_string(), (idx, kind.to_string()));
        } else {
            self.log.push(json!({"action": idx, "resp": resp}));
        }
    }

    fn start_worker(&mut self) -> bool {
        match PWorker::spawn(&self.dir, self.clock, true) {
            Ok((w, ready)) => {
                self.w = Some(w);
                if self.inc > 0 {
                    self.boundaries.push(ready["last"].as_str().unwrap_or("").to_string());
                }
                true
            }
            Err(e) => {
                self.log.push(json!({"start_failed": e}));
                self.died = true;
                false
            }
        }
    }

    /// fetch frames appended since the last refresh
    fn refresh(&mut self) -> bool {
        let last = self.frames.last().map(|f| json!(f.id)).unwrap_or(Value::Null);
        let r = self.call(json!({"op": "stream", "last": last, "content": false}));
        let Some(fs) = r["frames"].as_array() else { return false };
        let grew = !fs.is_empty();
        for f in fs {
            let topic = f["topic"].as_str().unwrap_or("").to_string();
            let (name, suf) = split_topic(&topic);
            self.frames.push(Fr {
                id: f["id"].as_str().unwrap_or("").to_string(),
                ctx: f["context_id"].as_str().unwrap_or("").to_string(),
                topic,
                name,
                suf,
                meta: f.get("meta").cloned().unwrap_or(Value::Null),
                inc: self.inc,
            });
        }
        grew
    }

    fn reacts(&self, kind: &Value, f: &Fr) -> bool {
        match kind["react"].as_str().unwrap_or("t") {
            "all" => true,
            _ => f.topic.starts_with("t."),
        }
    }

    /// what the stream still owes, judged generously (anything here makes the runner wait)
    fn pending(&self) -> Vec<String> {
        let mut p = vec![];
        let cur = self.inc;
        let fs = &self.frames;
        // ---------------- handlers
        for (ri, r) in fs.iter().enumerate() {
            if r.suf != "register" {
                continue;
            }
            let Some((_, kname)) = self.by_id.get(&r.id) else { continue };
            let kind = self.kind(kname);
            let stamped = |f: &Fr| meta_str(&f.meta, "handler_id") == Some(r.id.as_str());
            let ann_cur: Vec<usize> = fs
                .iter()
                .enumerate()
                .filter(|(_, f)| f.inc == cur && f.name == r.name && (f.suf == "registered" || f.suf == "unregistered") && stamped(f))
                .map(|(i, _)| i)
                .collect();
            let ever_unreg = fs.iter().any(|f| f.suf == "unregistered" && f.name == r.name && stamped(f));
            if r.inc == cur {
                if ann_cur.is_empty() {
                    p.push(format!("announce {}", r.topic));
                    continue;
                }
            } else {
                let was_active = !ever_unreg && fs.iter().any(|f| f.inc < cur && f.suf == "registered" && f.name == r.name && stamped(f));
                if !was_active {
                    continue;
                }
                // DESIGN 6 #10: a later register of the same name in another context hides this one
                // ... and one in the same context replaced it
                let shadowed = fs[ri + 1..].iter().any(|f| f.inc < cur && f.suf == "register" && f.name == r.name);
                if ann_cur.is_empty() {
                    if !shadowed {
                        p.push(format!("restore {}", r.topic));
                    }
                    continue;
                }
            }
            let Some(a) = fs.iter().position(|f| f.inc == cur && f.name == r.name && f.suf == "registered" && stamped(f)) else { continue };
            let unreg_cur = fs.iter().any(|f| f.inc == cur && f.name == r.name && f.suf == "unregistered" && stamped(f));
            if unreg_cur {
                continue;
            }
            // resume head / after: history is owed too; tail: only what follows .registered
            let from = match kind["resume"].as_str().unwrap_or("tail") {
                "tail" => a + 1,
                _ => 0,
            };
            let after_id = kind["resume"].as_str().and_then(|s| s.strip_prefix("after:")).and_then(|n| n.parse::<usize>().ok())
                .and_then(|n| self.act_id.get(&n).cloned());
            // frames are handled in order: nothing before the last frame the instance has answered
            // (or stopped on) can still be owed - it was skipped for good (observer: skipped / known #9)
            let answered = |f: &Fr| fs.iter().any(|o| o.inc == cur && stamped(o) && meta_str(&o.meta, "frame_id") == Some(f.id.as_str()));
            let last_done = fs.iter().enumerate().filter(|(i, f)| *i >= from && f.ctx == r.ctx && !stamped(f) && answered(f)).map(|(i, _)| i).last();
            let from = last_done.unwrap_or(from).max(from);
            for f in fs[from..].iter() {
                // (a .register / .unregister of its own name stops the instance even if it appended it itself)
                let lifecycle = f.name == r.name && (f.suf == "register" || f.suf == "unregister");
                if f.ctx != r.ctx || (stamped(f) && !lifecycle) {
                    continue;
                }
                if let Some(aid) = &after_id {
                    if f.id <= *aid {
                        continue;
                    }
                }
                if f.name == r.name && (f.suf == "register" || f.suf == "unregister") {
                    if f.id <= r.id {
                        continue;
                    }
                    p.push(format!("stop {} by {}", r.topic, f.topic));
                    break;
                }
                if !self.reacts(kind, f) {
                    continue;
                }
                if kind["fail_on"].as_str() == Some(f.topic.as_str()) {
                    p.push(format!("failure of {} on {}", r.topic, f.topic));
                    break;
                }
                let g = kind["group"].as_u64().unwrap_or(0) as usize;
                if g == 0 {
                    continue;
                }
                let have = fs
                    .iter()
                    .filter(|o| o.inc == cur && stamped(o) && meta_str(&o.meta, "frame_id") == Some(f.id.as_str()))
                    .count();
                if have < g {
                    p.push(format!("group {} for {} ({have}/{g})", r.topic, f.topic));
                    break;
                }
            }
        }
        // ---------------- commands (table keyed by (context, name))
        for (ci, c) in fs.iter().enumerate() {
            if c.inc != cur {
                continue;
            }
            if c.suf == "define" {
                if let Some((_, kname)) = self.by_id.get(&c.id) {
                    if !self.kind(kname)["valid"].as_bool().unwrap_or(true) {
                        let have = fs.iter().any(|f| f.inc == cur && f.name == c.name && f.suf == "error" && meta_str(&f.meta, "command_id") == Some(c.id.as_str()));
                        if !have {
                            p.push(format!("define error {}", c.topic));
                        }
                    }
                }
            }
            if c.suf == "call" {
                let def = fs[..ci].iter().rev().find(|f| {
                    f.suf == "define" && f.name == c.name && f.ctx == c.ctx
                        && self.by_id.get(&f.id).map(|(_, k)| self.kind(k)["valid"].as_bool().unwrap_or(true)).unwrap_or(false)
                });
                let Some(def) = def else { continue };
                let kname = &self.by_id[&def.id].1;
                let unstamped = self.kind(kname)["unstamped_error"].as_bool().unwrap_or(false);
                let have = fs.iter().any(|f| {
                    f.inc == cur && f.name == c.name && (f.suf == "complete" || f.suf == "error")
                        && (meta_str(&f.meta, "frame_id") == Some(c.id.as_str()) || (unstamped && f.meta.get("frame_id").is_none()))
                });
                if !have {
                    p.push(format!("terminal of {}", c.topic));
                }
            }
        }
        // ---------------- generators (table keyed by name, as coded)
        for (gi, g) in fs.iter().enumerate() {
            if g.suf != "spawn" {
                continue;
            }
            let Some((_, kname)) = self.by_id.get(&g.id) else { continue };
            let kind = self.kind(kname);
            let sid = |f: &Fr| meta_str(&f.meta, "source_id") == Some(g.id.as_str());
            if g.inc != cur {
                // restored iff it is the last spawn / spawn.error of its name before this incarnation
                let later = fs[gi + 1..].iter().any(|f| {
                    f.inc < cur && f.name == g.name && f.ctx == g.ctx
                        && (f.suf == "spawn" || (f.suf == "spawn.error" && meta_str(&f.meta, "source_id") == Some(g.id.as_str())))
                });
                if later {
                    continue;
                }
            }
            let started = fs.iter().filter(|f| f.inc == cur && f.name == g.name && f.suf == "start" && sid(f)).count();
            let refused = fs.iter().any(|f| f.inc == cur && f.name == g.name && f.suf == "spawn.error" && sid(f));
            if started == 0 && !refused {
                p.push(format!("start of {}", g.topic));
                continue;
            }
            if refused || kind["panics"].as_bool().unwrap_or(false) {
                continue;
            }
            let want = self.sc["gen_cycles"].as_u64().unwrap_or(1) as usize;
            let stops = fs.iter().filter(|f| f.inc == cur && f.name == g.name && f.suf == "stop" && sid(f)).count();
            if kind["duplex"].as_bool().unwrap_or(false) {
                let start_i = fs.iter().position(|f| f.inc == cur && f.name == g.name && f.suf == "start" && sid(f)).unwrap_or(0);
                let sends = fs[start_i..].iter().filter(|f| f.name == g.name && f.suf == "send" && f.ctx == g.ctx).count();
                let recvs = fs.iter().filter(|f| f.inc == cur && f.name == g.name && f.suf == "recv" && sid(f)).count();
                if recvs < sends * kind["per_send"].as_u64().unwrap_or(1) as usize {
                    p.push(format!("echo of {} ({recvs}/{sends})", g.topic));
                }
            } else if stops < want {
                p.push(format!("cycle of {} ({stops}/{want})", g.topic));
            }
        }
        p
    }

    /// wait until nothing is owed and the stream stopped growing for `settle`; Err(pending) on timeout
    fn wait_quiet(&mut self, settle: Duration, long: Duration, poll: Duration) -> (bool, Vec<String>, u128) {
        self.wait_quiet2(settle, long, poll, true)
    }

    /// `insist` = false: a bounded courtesy wait (settle action), its expiry is not "the long timeout"
    fn wait_quiet2(&mut self, settle: Duration, long: Duration, poll: Duration, insist: bool) -> (bool, Vec<String>, u128) {
        let t0 = Instant::now();
        let mut last_growth = Instant::now();
        loop {
            if self.refresh() {
                last_growth = Instant::now();
            }
            if self.died {
                return (false, vec!["worker died".into()], t0.elapsed().as_millis());
            }
            if self.frames.len() > self.max_frames {
                self.overflow = true;
                return (true, vec!["stream outgrew the scenario bound".into()], t0.elapsed().as_millis());
            }
            let p = self.pending();
            // `patient`: hold every wait for the full long timeout whatever is believed to be owed (re-run of a scenario in
            // which the observer missed a frame the runner did not wait for: absence counts only after the long wait)
            let patient = insist && self.sc["patient"].as_bool().unwrap_or(false);
            if patient {
                if t0.elapsed() >= long {
                    return (true, if p.is_empty() { vec!["patient wait".into()] } else { p }, t0.elapsed().as_millis());
                }
                std::thread::sleep(poll);
                continue;
            }
            if p.is_empty() && last_growth.elapsed() >= settle {
                return (false, vec![], t0.elapsed().as_millis());
            }
            let shorten = self.first_timeout.is_some() && !self.sc["no_shorten"].as_bool().unwrap_or(false);
            let long_now = if shorten { long.min(Duration::from_millis(3000)) } else { long };
            if t0.elapsed() >= long_now {
                if !p.is_empty() && self.first_timeout.is_none() && insist {
                    self.first_timeout = Some(p.clone());
                }
                return (!p.is_empty(), p, t0.elapsed().as_millis());
            }
            std::thread::sleep(poll);
        }
    }

    /// the ephemeral frames the server's all-contexts follower has seen since the last call
    fn collect_eph(&mut self) {
        if self.w.is_none() || self.died {
            return;
        }
        let r = self.call(json!({"op": "eph_seen"}));
        if let Some(fs) = r["frames"].as_array() {
            for f in fs {
                let mut f = f.clone();
                f["inc"] = json!(self.inc);
                self.ephs.push(f);
            }
        }
    }

    fn do_append(&mut self, idx: usize, a: &Value) {
        if let Some((req, kind)) = self.request(a) {
            let resp = self.call(req);
            self.note(idx, &kind, &resp);
        }
    }

    fn exec(&mut self, a: &Value, tm: &Timing, mode_a: bool) {
        let idx = a["i"].as_u64().unwrap_or(0) as usize;
        match a["a"].as_str().unwrap_or("") {
            "restart" => {
                // `patient`: before this restart the runner waited until nothing was owed, or for the whole long timeout -
                // whatever the processors were going to do about the frames appended so far, they had the time to do it
                let mut patient = false;
                let quiet = if a["quiet"].as_bool().unwrap_or(true) {
                    let (to, _, waited) = self.wait_quiet(tm.step_settle.max(Duration::from_millis(60)), tm.long, tm.poll);
                    // (after a first long timeout the later waits of a run are cut to 3 s: that run is already judged by
                    // its timeout, and 3 s is still long against the milliseconds a processor needs)
                    patient = !to || waited >= tm.long.as_millis() || (self.first_timeout.is_some() && waited >= 3000);
                    !to
                } else {
                    self.refresh();
                    false
                };
                let how = a["how"].as_str().unwrap_or("kill");
                self.collect_eph();
                if let Some(w) = self.w.take() {
                    if how == "exit" {
                        w.stop()
                    } else {
                        w.kill()
                    }
                }
                self.inc += 1;
                self.clock += 5;
                self.restarts.push(json!({"how": how, "quiet": quiet, "patient": patient, "inc": self.inc}));
                self.start_worker();
                // frames written by the old incarnation after the last refresh belong to it
                let b = self.boundaries.last().cloned().unwrap_or_default();
                let last = self.frames.last().map(|f| json!(f.id)).unwrap_or(Value::Null);
                let r = self.call(json!({"op": "stream", "last": last, "content": false}));
                if let Some(fs) = r["frames"].as_array() {
                    for f in fs {
                        let id = f["id"].as_str().unwrap_or("").to_string();
                        let topic = f["topic"].as_str().unwrap_or("").to_string();
                        let (name, suf) = split_topic(&topic);
                        let inc = if !b.is_empty() && id <= b { self.inc - 1 } else { self.inc };
                        self.frames.push(Fr { id, ctx: f["context_id"].as_str().unwrap_or("").to_string(), topic, name, suf,
                                              meta: f.get("meta").cloned().unwrap_or(Value::Null), inc });
                    }
                }
            }
            "sleep" => std::thread::sleep(Duration::from_millis(a["ms"].as_u64().unwrap_or(10))),
            "gates" => {
                // only effective when the hooks of docs/proc-hooks.patch are compiled in
                let _ = self.call(json!({"op": "gates", "prefixes": a["prefixes"]}));
            }
            "step" => {
                let r = self.call(json!({"op": "step", "actor": a["actor"], "wait_ms": a["wait_ms"].as_u64().unwrap_or(300)}));
                self.log.push(json!({"step": a["actor"], "resp": r}));
            }
            "settle" => {
                // let what is in flight finish, but do not insist (used before probes in mode B)
                let cap = Duration::from_millis(a["cap_ms"].as_u64().unwrap_or(1500));
                let _ = self.wait_quiet2(tm.step_settle, cap, tm.poll, false);
            }
            "burst" => {
                let items = a["items"].as_array().cloned().unwrap_or_default();
                let mut reqs = vec![];
                let mut kinds = vec![];
                for it in &items {
                    if let Some((req, k)) = self.request(it) {
                        reqs.push(req);
                        kinds.push((it["i"].as_u64().unwrap_or(0) as usize, k));
                    }
                }
                let r = self.call(json!({"op": "burst", "items": reqs, "threads": a["threads"].as_u64().unwrap_or(3)}));
                if let Some(rs) = r["results"].as_array() {
                    for (x, (i, k)) in rs.iter().zip(kinds.iter()) {
                        self.note(*i, k, x);
                    }
                }
            }
            _ => self.do_append(idx, a),
        }
        self.nact += 1;
        if (mode_a || a["wait"].as_bool().unwrap_or(false))
            && a["a"].as_str() != Some("sleep")
            && a["a"].as_str() != Some("settle")
            && a["a"].as_str() != Some("gates")
            && a["a"].as_str() != Some("step")
            && !a["nowait"].as_bool().unwrap_or(false)
        {
            let _ = self.wait_quiet(tm.step_settle, tm.long, tm.poll);
        }
    }
}

fn id_rank(ranks: &HashMap<String, i64>, v: Option<&str>) -> i64 {
    match v {
        None => 0,
        Some(s) if s.is_empty() => 0,
        Some(s) => *ranks.get(s).unwrap_or(&-1),
    }
}

/// content -> the fixed record the observer reads: k (tag), n (counter), tid (rank of the
/// trigger id carried in the content), t (trigger topic), x (ranks of ids the script listed)
/// JSON with object keys sorted, no whitespace (the spelling tools/groups/proc_catalogue.py `canon` produces)
fn canon_json(v: &Value) -> String {
    match v {
        Value::Object(o) => {
            let mut keys: Vec<&String> = o.keys().collect();
            keys.sort();
            let parts: Vec<String> = keys
                .iter()
                .map(|k| format!("{}:{}", serde_json::to_string(k).unwrap(), canon_json(&o[*k])))
                .collect();
            format!("{{{}}}", parts.join(","))
        }
        Value::Array(a) => format!("[{}]", a.iter().map(canon_json).collect::<Vec<_>>().join(",")),
        other => other.to_string(),
    }
}

fn norm_content(bytes: Option<&[u8]>, ranks: &HashMap<String, i64>) -> Value {
    let mut out = json!({"k": "", "n": -1, "tid": -2, "t": "-", "x": [], "hx": -2});
    let Some(b) = bytes else { return out };
    let Ok(s) = std::str::from_utf8(b) else {
        out["k"] = json!("?bin");
        return out;
    };
    let fill_parts = |out: &mut Value, parts: &[String]| {
        out["k"] = json!(parts.first().cloned().unwrap_or_default());
        if let Some(n) = parts.get(1).and_then(|x| x.parse::<i64>().ok()) {
            out["n"] = json!(n);
        }
        if let Some(t) = parts.get(2) {
            out["tid"] = json!(id_rank(ranks, Some(t)));
        }
        if let Some(t) = parts.get(3) {
            out["t"] = json!(t);
        }
    };
    let from_str = |out: &mut Value, s: &str| {
        if s.contains('|') {
            let parts: Vec<String> = s.split('|').map(|x| x.to_string()).collect();
            fill_parts(out, &parts);
        } else {
            out["k"] = json!(s.trim().chars().take(48).collect::<String>());
        }
    };
    match serde_json::from_str::<Value>(s) {
        Ok(Value::Object(o)) => {
            out["k"] = json!(o.get("k").and_then(|v| v.as_str()).unwrap_or("?rec"));
            if let Some(n) = o.get("n").and_then(|v| v.as_i64()) {
                out["n"] = json!(n);
            }
            if let Some(t) = o.get("tid").and_then(|v| v.as_str()) {
                out["tid"] = json!(id_rank(ranks, Some(t)));
            }
            if let Some(t) = o.get("t").and_then(|v| v.as_str()) {
                out["t"] = json!(t);
            }
            if let Some(x) = o.get("x").and_then(|v| v.as_array()) {
                out["x"] = json!(x.iter().map(|i| id_rank(ranks, i.as_str())).collect::<Vec<_>>());
            }
            if let Some(h) = o.get("hx") {
                out["hx"] = json!(id_rank(ranks, h.as_str()));
            }
            // a payload whose fidelity matters (e.g. the trigger's meta echoed back): part of the tag
            if let Some(z) = o.get("z") {
                out["k"] = json!(format!("{}|{}", out["k"].as_str().unwrap_or(""), canon_json(z)));
            }
        }
        Ok(Value::String(q)) => from_str(&mut out, &q),
        Ok(Value::Number(n)) => {
            out["k"] = json!("int");
            out["n"] = json!(n.as_i64().unwrap_or(-1));
        }
        Ok(Value::Array(a)) => {
            let parts: Vec<String> = a.iter().map(|v| v.as_str().map(|s| s.to_string()).unwrap_or(v.to_string())).collect();
            fill_parts(&mut out, &parts);
        }
        Ok(Value::Bool(b)) => out["k"] = json!(format!("bool:{b}")),
        Ok(Value::Null) => out["k"] = json!("null"),
        Err(_) => from_str(&mut out, s),
    }
    out
}

pub fn run_scenario(root: &Path, sc: &Value) -> Vec<Value> {
    let sid = sc["s"].clone();
    let dir = root.join(format!("p{}", sc["s"]));
    let _ = std::fs::remove_dir_all(&dir);
    std::fs::create_dir_all(&dir).unwrap();
    let tm = Timing {
        step_settle: Duration::from_millis(sc["step_settle_ms"].as_u64().unwrap_or(20)),
        final_settle: Duration::from_millis(sc["final_settle_ms"].as_u64().unwrap_or(300)),
        long: Duration::from_millis(sc["long_ms"].as_u64().unwrap_or(20_000)),
        poll: Duration::from_millis(sc["poll_ms"].as_u64().unwrap_or(4)),
    };
    let mode_a = sc["mode"].as_str().unwrap_or("A") == "A";
    let mut run = Run {
        sc,
        dir: dir.clone(),
        w: None,
        clock: BASE_MS,
        ctxs: vec![ZERO.to_string()],
        act_id: HashMap::new(),
        by_id: HashMap::new(),
        frames: vec![],
        inc: 0,
        boundaries: vec![],
        restarts: vec![],
        died: false,
        overflow: false,
        first_timeout: None,
        ephs: vec![],
        max_frames: sc["max_frames"].as_u64().unwrap_or(160) as usize,
        nact: 0,
        log: vec![],
    };
    let mut evs = vec![json!({"e": "reset", "s": sid})];
    if !run.start_worker() {
        evs.push(json!({"e": "harness_died", "s": sid, "why": "worker start"}));
        return evs;
    }
    let nctx = sc["nctx"].as_u64().unwrap_or(1) as usize;
    for _ in 1..nctx {
        let r = run.call(json!({"op": "append", "topic": "xs.context", "ctx": ZERO}));
        match r["frame"]["id"].as_str() {
            Some(id) => run.ctxs.push(id.to_string()),
            None => {
                evs.push(json!({"e": "harness_died", "s": sid, "why": "context"}));
                return evs;
            }
        }
    }
    let actions = sc["actions"].as_array().cloned().unwrap_or_default();
    for a in &actions {
        run.exec(a, &tm, mode_a);
        if run.died || run.overflow {
            break;
        }
    }
    let (timeout, pend, waited) = run.wait_quiet(tm.final_settle, tm.long, tm.poll);
    let timeout = timeout || run.first_timeout.is_some();
    let head = |x: &String| x.split(" (").next().unwrap_or("").to_string();
    let late = match &run.first_timeout {
        Some(first) => !run.overflow && !first.iter().any(|f| pend.iter().any(|q| head(q) == head(f))),
        None => false,
    };
    // stop the server, then read the stream through a plain worker: nothing can move any more
    run.collect_eph();
    let server_died = run.died;
    if let Some(w) = run.w.take() {
        w.kill();
    }
    let dump = match PWorker::spawn(&dir, run.clock + 5, false) {
        Ok((mut w, _)) => {
            let r = w.call(json!({"op": "stream", "content": true}));
            w.stop();
            r
        }
        Err(e) => {
            evs.push(json!({"e": "harness_died", "s": sid, "why": e}));
            let _ = std::fs::remove_dir_all(&dir);
            return evs;
        }
    };
    let _ = std::fs::remove_dir_all(&dir);
    let Some(frames) = dump["frames"].as_array() else {
        evs.push(json!({"e": "harness_died", "s": sid, "why": "dump"}));
        return evs;
    };
    // an overflowing stream is cut: the observer judges the prefix and demands nothing absent
    let cut = if run.overflow { frames.len().min(run.max_frames + 20) } else { frames.len() };
    let frames = &frames[..cut];
    if server_died {
        // the worker process itself went away while serving: a harness-level failure (a panic in
        // a processor thread does not take the process down)
        evs.push(json!({"e": "harness_died", "s": sid, "why": "serve worker died", "log": run.log}));
        return evs;
    }
    let mut ranks: HashMap<String, i64> = HashMap::new();
    for (i, f) in frames.iter().enumerate() {
        ranks.insert(f["id"].as_str().unwrap_or("").to_string(), i as i64 + 1);
    }
    let ctx_idx: HashMap<String, i64> = run.ctxs.iter().enumerate().map(|(i, c)| (c.clone(), i as i64)).collect();
    // kinds: spec fields only (scripts stay out of the trace)
    let mut kinds = serde_json::Map::new();
    if let Some(ks) = sc["kinds"].as_object() {
        for (k, v) in ks {
            let mut v = v.clone();
            if let Some(o) = v.as_object_mut() {
                o.remove("script");
                // resume "after:<action>" -> rank of that action's frame
                let after = o.get("resume").and_then(|r| r.as_str()).and_then(|s| s.strip_prefix("after:").map(|x| x.to_string()));
                let mut after_rank = 0;
                if let Some(a) = after {
                    after_rank = id_rank(&ranks, a.parse::<usize>().ok().and_then(|n| run.act_id.get(&n)).map(|s| s.as_str()));
                    o.insert("resume".into(), json!("after"));
                }
                o.insert("after".into(), json!(after_rank));
            }
            kinds.insert(k.clone(), v);
        }
    }
    evs.push(json!({"e": "scenario", "s": sid, "mode": sc["mode"].as_str().unwrap_or("A"), "nctx": nctx,
                    "kinds": kinds, "gen_cycles": sc["gen_cycles"].as_u64().unwrap_or(1), "cfg": sc["cfg"].as_str().unwrap_or("")}));
    let bounds: Vec<Scru128Id> = run.boundaries.iter().map(|b| Scru128Id::from_str(b).unwrap_or(Scru128Id::from_u128(0))).collect();
    let empty_bound: Vec<bool> = run.boundaries.iter().map(|b| b.is_empty()).collect();
    for (i, f) in frames.iter().enumerate() {
        let id = f["id"].as_str().unwrap_or("");
        let idv = Scru128Id::from_str(id).unwrap_or(Scru128Id::from_u128(0));
        let inc = bounds.iter().zip(empty_bound.iter()).filter(|(b, e)| **e || idv > **b).count();
        let topic = f["topic"].as_str().unwrap_or("");
        let (name, suf) = split_topic(topic);
        let meta = f.get("meta").cloned().unwrap_or(Value::Null);
        let (act, kind) = run.by_id.get(id).cloned().map(|(a, k)| (a as i64 + 1, k)).unwrap_or((0, String::new()));
        let content = f["content"].as_str().and_then(|c| base64::prelude::BASE64_STANDARD.decode(c).ok());
        let has_hash = f.get("hash").map(|h| !h.is_null()).unwrap_or(false);
        // user meta that survives next to the stamps (observer checks the --meta passthrough)
        let um = meta.get("u").and_then(|v| v.as_i64()).unwrap_or(-1);
        evs.push(json!({
            "e": "frame", "id": i as i64 + 1, "inc": inc, "ctx": ctx_idx.get(f["context_id"].as_str().unwrap_or("")).cloned().unwrap_or(-1),
            "topic": topic, "name": name, "suf": suf, "act": act, "kind": kind,
            "hid": id_rank(&ranks, meta_str(&meta, "handler_id")),
            "cid": id_rank(&ranks, meta_str(&meta, "command_id")),
            "sid": id_rank(&ranks, meta_str(&meta, "source_id")),
            "fid": id_rank(&ranks, meta_str(&meta, "frame_id")),
            "err": meta.get("error").is_some(),
            "reason": meta.get("reason").is_some(),
            "um": um,
            "ttl": f["ttl"].as_str().unwrap_or("forever"),
            "hash": has_hash,
            "cas": !has_hash || f["cas_ok"].as_bool().unwrap_or(false),
            // client frames: only the payload of a .send is interesting (scripts stay out of the trace)
            "c": if act > 0 && suf != "send" { norm_content(None, &ranks) } else { norm_content(content.as_deref(), &ranks) },
        }));
    }
    // ephemeral frames seen by the server's follower (never in the stream): context, topic, stamps as ranks
    let ephs: Vec<Value> = run
        .ephs
        .iter()
        .map(|f| {
            let meta = f.get("meta").cloned().unwrap_or(Value::Null);
            json!({"ctx": ctx_idx.get(f["context_id"].as_str().unwrap_or("")).cloned().unwrap_or(-1),
                   "topic": f["topic"].as_str().unwrap_or(""), "inc": f["inc"],
                   "hid": id_rank(&ranks, meta_str(&meta, "handler_id")), "cid": id_rank(&ranks, meta_str(&meta, "command_id")),
                   "sid": id_rank(&ranks, meta_str(&meta, "source_id")), "fid": id_rank(&ranks, meta_str(&meta, "frame_id"))})
        })
        .collect();
    evs.push(json!({"e": "quiescent", "s": sid, "timeout": timeout, "pending": pend, "waited_ms": waited as u64, "ephs": ephs,
                    "restarts": run.restarts, "nframes": frames.len(), "log": run.log, "overflow": run.overflow,
                    // what was owed at the first long timeout is no longer owed: later (shortened) waits of
                    // this run cannot be trusted - proc.py runs the scenario again with uniform long waits
                    "late": late,
                    "cycles": sc["gen_cycles"].as_u64().unwrap_or(1)}));
    evs
}

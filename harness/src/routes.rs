//! C13: sends the request vectors enumerated by spec/XsRoutes.tla as raw HTTP/1.1 to the real front end
//! (xs::api::serve on a unix socket, in this process) and records, per vector, the status, what changed in the raw
//! partitions and whether the Store API finds what the path names.
use std::io::{BufRead, Write};
use std::time::Duration;

use serde_json::{json, Value};
use xs::store::{Frame, Store, ZERO_CONTEXT};

fn stream_of(d: &Value) -> Vec<(String, Value)> {
    d["stream"]
        .as_array()
        .map(|a| {
            a.iter()
                .map(|e| (e[0].as_str().unwrap_or("").to_string(), serde_json::from_str(e[1].as_str().unwrap_or("null")).unwrap_or(Value::Null)))
                .collect()
        })
        .unwrap_or_default()
}

pub fn run(inp: &str, out: &str, jobs: usize) {
    let lines: Vec<String> = std::io::BufReader::new(std::fs::File::open(inp).unwrap()).lines().map(|l| l.unwrap()).filter(|l| !l.trim().is_empty()).collect();
    let n = lines.len();
    let lines = std::sync::Arc::new(lines);
    let mut hs = vec![];
    for j in 0..jobs {
        let lines = lines.clone();
        hs.push(std::thread::spawn(move || {
            let mine: Vec<(usize, String)> = lines.iter().enumerate().filter(|(i, _)| i % jobs == j).map(|(i, l)| (i, l.clone())).collect();
            run_part(mine)
        }));
    }
    let mut all: Vec<(usize, Value)> = hs.into_iter().flat_map(|h| h.join().unwrap()).collect();
    all.sort_by_key(|(i, _)| *i);
    let mut o = std::io::BufWriter::new(std::fs::File::create(out).unwrap());
    for (_, v) in &all {
        writeln!(o, "{}", v).unwrap();
    }
    o.flush().unwrap();
    println!("{{\"results\": {n}}}");
    std::process::exit(0);
}

fn run_part(vectors: Vec<(usize, String)>) -> Vec<(usize, Value)> {
    let dir = tempfile::tempdir().unwrap();
    let rt = tokio::runtime::Builder::new_multi_thread().worker_threads(4).enable_all().build().unwrap();
    let store = Store::new(dir.path().to_path_buf());
    let sock = dir.path().join("sock");
    {
        let engine = xs::nu::Engine::new().expect("engine");
        let s2 = store.clone();
        rt.spawn(async move {
            let _ = xs::api::serve(s2, engine, None).await;
        });
    }
    let deadline = std::time::Instant::now() + Duration::from_secs(10);
    while std::os::unix::net::UnixStream::connect(&sock).is_err() {
        if std::time::Instant::now() > deadline {
            eprintln!("socket did not come up");
            std::process::exit(3);
        }
        std::thread::sleep(Duration::from_millis(2));
    }
    // a registered context with a frame of topic t in it
    let c = store.append(Frame::builder("xs.context", ZERO_CONTEXT).build()).unwrap().id;
    store.append(Frame::builder("t", c).build()).unwrap();
    let unknown = "03d4q1qhbiv09ovtuhokw5yxv";
    let absent_hash = "sha256-AAAAAAAAAAAAAAAAAAAAAAAAAAAAAAAAAAAAAAAAAAA=";
    let mut results = vec![];
    for (n, line) in vectors {
        let v: Value = serde_json::from_str(&line).unwrap();
        let (m, p, q, acc, body) = (
            v["m"].as_str().unwrap(),
            v["p"].as_str().unwrap(),
            v["q"].as_str().unwrap(),
            v["acc"].as_str().unwrap(),
            v["body"].as_str().unwrap(),
        );
        // X: a fresh frame with content
        let content = format!("hello-{n}");
        let h = store.cas_insert_sync(content.as_bytes()).unwrap();
        let x = store.append(Frame::builder("t", ZERO_CONTEXT).hash(h.clone()).build()).unwrap();
        let path = match p {
            "root" => "/".to_string(),
            "version" => "/version".to_string(),
            "head_t" => "/head/t".to_string(),
            "head_absent" => "/head/nosuch".to_string(),
            "head_empty" => "/head/".to_string(),
            "cas" => "/cas".to_string(),
            "cas_slash" => "/cas/".to_string(),
            "cas_h" => format!("/cas/{h}"),
            "cas_absent" => format!("/cas/{absent_hash}"),
            "cas_bad" => "/cas/nothash".to_string(),
            "import" => "/import".to_string(),
            "id" => format!("/{}", x.id),
            "id_absent" => format!("/{unknown}"),
            "word" => "/someword".to_string(),
            "deep" => "/a/b".to_string(),
            "dslash_id" => format!("//{}", x.id),
            _ => "/".to_string(),
        };
        let query = match q {
            "ctx_ok" => format!("?context={c}"),
            "ctx_bad" => "?context=zzz".to_string(),
            "ttl_ok" => "?ttl=time:60000000".to_string(),
            "ttl_bad" => "?ttl=head:0".to_string(),
            "cid_ok" => format!("?context-id={c}"),
            "cid_bad" => "?context-id=zzz".to_string(),
            "follow_bad" => "?follow=maybe".to_string(),
            "limit1" => "?limit=1".to_string(),
            _ => String::new(),
        };
        let import_id = scru128::new();
        let body_bytes: Vec<u8> = match body {
            "bytes" => b"some bytes".to_vec(),
            "frame" => serde_json::to_vec(&json!({"topic": "imported", "context_id": ZERO_CONTEXT.to_string(), "id": import_id.to_string(),
                "hash": null, "meta": null, "ttl": "forever"}))
            .unwrap(),
            "notjson" => b"{nope".to_vec(),
            _ => vec![],
        };
        // what the Store API finds for the thing the path names
        let head_ctx = if q == "ctx_ok" { c } else { ZERO_CONTEXT };
        let exists = match p {
            "head_t" => store.head("t", head_ctx).is_some(),
            "head_absent" => store.head("nosuch", head_ctx).is_some(),
            "head_empty" => store.head("", head_ctx).is_some(),
            "id" | "dslash_id" => store.get(&x.id).is_some(),
            "id_absent" => store.get(&unknown.parse().unwrap()).is_some(),
            _ => false,
        };
        // (every 50th vector: the raw partitions before and after; otherwise what a read finds above X, and X itself)
        let full = n % 50 == 0;
        let before = if full { stream_of(&store.verif_dump()) } else { vec![] };
        let mut headers: Vec<(&str, Vec<u8>)> = vec![];
        if acc == "sse" {
            headers.push(("Accept", b"text/event-stream".to_vec()));
        }
        let r = crate::http::req(&sock, m, &format!("{path}{query}"), &headers, &body_bytes);
        let next = crate::http::req(&sock, "GET", "/version", &[], &[]);
        let (after, before): (Vec<(String, Value)>, Vec<(String, Value)>) = if full {
            (stream_of(&store.verif_dump()), before)
        } else {
            let newer: Vec<(String, Value)> = store
                .read_sync(Some(&x.id), None, None)
                .map(|f| (f.id.to_string(), serde_json::to_value(&f).unwrap()))
                .collect();
            let xs: Vec<(String, Value)> = store.get(&x.id).map(|f| (f.id.to_string(), serde_json::to_value(&f).unwrap())).into_iter().collect();
            (xs.into_iter().chain(newer).collect(), vec![(x.id.to_string(), serde_json::to_value(&x).unwrap())])
        };
        let added: Vec<&(String, Value)> = after.iter().filter(|a| !before.iter().any(|b| b.0 == a.0)).collect();
        let removed: Vec<&(String, Value)> = before.iter().filter(|b| !after.iter().any(|a| a.0 == b.0)).collect();
        let changed_in_place = after.iter().any(|a| before.iter().any(|b| b.0 == a.0 && b.1 != a.1));
        let mut topic = String::new();
        let mut in_c = false;
        let eff = if changed_in_place {
            "other"
        } else if added.len() == 1 && removed.is_empty() {
            let f = &added[0].1;
            if f["id"].as_str() == Some(import_id.to_string().as_str()) {
                "import"
            } else {
                let t = f["topic"].as_str().unwrap_or("?");
                topic = if t == x.id.to_string() {
                    "X".into()
                } else if t == unknown {
                    "U".into()
                } else if t == format!("cas/{h}") {
                    "cas/H".into()
                } else if t == format!("cas/{absent_hash}") {
                    "cas/A".into()
                } else {
                    t.to_string()
                };
                in_c = f["context_id"].as_str() == Some(c.to_string().as_str());
                "append"
            }
        } else if added.is_empty() && removed.len() == 1 {
            "remove"
        } else if added.is_empty() && removed.is_empty() {
            if m == "POST" && p == "cas" && r.status == 200 {
                // the hash reported reads back
                let hs = String::from_utf8_lossy(&r.body).trim().to_string();
                match hs.parse::<ssri::Integrity>().ok().and_then(|i| store.cas_read_sync(&i).ok()) {
                    Some(b) if b == body_bytes => "cas",
                    _ => "other",
                }
            } else {
                "none"
            }
        } else {
            "other"
        };
        let sse = r.headers.iter().any(|(k, v)| k == "content-type" && v.contains("text/event-stream"));
        results.push((n, json!({"m": m, "p": p, "q": q, "acc": acc, "body": body, "status": r.status, "eff": eff,
            "topic": topic, "inC": in_c, "exists": exists, "sse": sse, "next": next.status})));
    }
    results
}

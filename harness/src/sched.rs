//! Gate scheduler runs for the concurrency group (C02 C03 C11, follow parts of C06 C09 C10).
//! One scenario = one process: writers (threads), one reader (history thread, live task,
//! heartbeat, consumer), one last-id poller, stepped one actor at a time either along a
//! TLC-generated schedule (a sequence of actor names) or along a seeded random walk over the
//! actors that can currently move (implementation-side exploration).  Everything observable
//! and every hook event goes into one totally ordered log.
use std::collections::BTreeMap;
use std::str::FromStr;
use std::time::Duration;

use rand::rngs::StdRng;
use rand::{Rng, SeedableRng};
use scru128::Scru128Id;
use serde_json::{json, Value};
use xs::store::{FollowOption, Frame, ReadOptions, Store, TTL, ZERO_CONTEXT};
use xs::verif::{self, ActorState};

const T: Duration = Duration::from_secs(5);

fn settle_all() {
    // wait until nobody is running; give woken waiters a moment to show up
    let mut quiet_rounds = 0;
    let deadline = std::time::Instant::now() + Duration::from_secs(5);
    while quiet_rounds < 2 && std::time::Instant::now() < deadline {
        let acts = verif::actors();
        let running = acts.iter().any(|(_, s)| *s == ActorState::Running);
        if running {
            quiet_rounds = 0;
            std::thread::sleep(Duration::from_micros(100));
            continue;
        }
        let waiting = acts.iter().any(|(_, s)| matches!(s, ActorState::Waiting(_)));
        if !waiting {
            break;
        }
        quiet_rounds += 1;
        std::thread::sleep(Duration::from_micros(400));
    }
}

fn parked() -> Vec<String> {
    verif::actors()
        .into_iter()
        .filter(|(_, s)| matches!(s, ActorState::Parked(_)))
        .map(|(a, _)| a)
        .collect()
}

fn frame_ev(f: &Frame) -> Value {
    json!({"id": f.id.to_string(), "topic": f.topic, "ctx": f.context_id.to_string(),
           "ttl": f.ttl.as_ref().map(|t| t.to_query()), "hash": f.hash.as_ref().map(|h| h.to_string())})
}

pub fn run_one(sc: &Value) -> Vec<Value> {
    let seed = sc["seed"].as_u64().unwrap_or(0);
    let mut rng = StdRng::seed_from_u64(seed);
    let b = sc["B"].as_u64().map(|x| x as usize);
    let m = sc["M"].as_u64().map(|x| x as usize);
    verif::set_caps(b, m);
    let dir = tempfile::tempdir_in(std::env::var("XSV_SCRATCH").unwrap_or("/dev/shm".into())).unwrap();
    let rt = tokio::runtime::Builder::new_multi_thread()
        .worker_threads(6)
        .enable_all()
        .build()
        .unwrap();
    let store = Store::new(dir.path().to_path_buf());
    verif::set_log(true);
    verif::emit(None, "scenario", json!({"s": sc["s"], "opts": {
        "follow": sc["follow"], "tail": sc["tail"], "last": sc["last"], "limit": sc["limit"], "rctx": sc["rctx"],
        "B": sc["B"], "M": sc["M"]}}));

    // contexts: index 0 = zero context, 1.. = registered
    let mut ctxs = vec![ZERO_CONTEXT];
    let nctx = sc["nctx"].as_u64().unwrap_or(1);
    let mut content_n = 0u32;
    let hist_append = |store: &Store, topic: &str, ctx: Scru128Id, ttl: TTL, with_content: bool, content_n: &mut u32| -> Frame {
        let hash = if with_content {
            *content_n += 1;
            Some(store.cas_insert_sync(format!("content-{}", content_n)).unwrap())
        } else {
            None
        };
        verif::emit(Some("h"), "w.call", json!({"w": "h", "ctx": ctx.to_string(), "kind": if ttl == TTL::Ephemeral {"e"} else {"f"}}));
        let f = store
            .append(Frame::builder(topic, ctx).ttl(ttl).maybe_hash(hash).build())
            .unwrap();
        verif::emit(Some("h"), "w.ret", json!({"w": "h", "ok": true, "f": frame_ev(&f)}));
        f
    };
    for _ in 1..=nctx.saturating_sub(1).max(if sc["rctx"].as_i64().unwrap_or(-1) > 0 { 1 } else { 0 }) {
        let f = hist_append(&store, "xs.context", ZERO_CONTEXT, TTL::Forever, false, &mut content_n);
        ctxs.push(f.id);
    }
    let mut hist_ids = vec![];
    for c in sc["history"].as_array().cloned().unwrap_or_default() {
        let ci = c.as_u64().unwrap_or(0) as usize;
        while ctxs.len() <= ci {
            let f = hist_append(&store, "xs.context", ZERO_CONTEXT, TTL::Forever, false, &mut content_n);
            ctxs.push(f.id);
        }
        let f = hist_append(&store, "t", ctxs[ci], TTL::Forever, rng.gen_bool(0.5), &mut content_n);
        hist_ids.push(f.id);
    }
    // writers' contexts must exist as well
    let plans: BTreeMap<String, Vec<(String, usize)>> = sc["plans"]
        .as_object()
        .map(|o| {
            o.iter()
                .map(|(k, v)| {
                    (
                        k.clone(),
                        v.as_array()
                            .unwrap()
                            .iter()
                            .map(|it| (it[0].as_str().unwrap().to_string(), it[1].as_u64().unwrap() as usize))
                            .collect(),
                    )
                })
                .collect()
        })
        .unwrap_or_default();
    let maxc = plans.values().flatten().map(|x| x.1).max().unwrap_or(0);
    while ctxs.len() <= maxc {
        let f = hist_append(&store, "xs.context", ZERO_CONTEXT, TTL::Forever, false, &mut content_n);
        ctxs.push(f.id);
    }

    let stress = sc["stress"].as_bool().unwrap_or(false);
    if !stress {
        verif::set_gates(&["w", "r"]);
    }

    // writers
    let mut whandles = vec![];
    for (w, plan) in plans.clone() {
        let store = store.clone();
        let ctxs = ctxs.clone();
        let wname = w.clone();
        whandles.push(std::thread::spawn(move || {
            verif::set_actor(Some(&wname));
            let mut n = 0;
            for (kind, ci) in plan {
                verif::point(Some(&wname), "w.start", json!({}));
                n += 1;
                let ttl = if kind == "e" { TTL::Ephemeral } else { TTL::Forever };
                let hash = if n % 2 == 0 {
                    Some(store.cas_insert_sync(format!("content-{wname}-{n}")).unwrap())
                } else {
                    None
                };
                verif::emit(Some(&wname), "w.call", json!({"w": wname, "ctx": ctxs[ci].to_string(), "kind": kind}));
                let r = store.append(Frame::builder("t", ctxs[ci]).ttl(ttl).maybe_hash(hash).build());
                match r {
                    Ok(f) => verif::emit(Some(&wname), "w.ret", json!({"w": wname, "ok": true, "f": frame_ev(&f)})),
                    Err(e) => verif::emit(Some(&wname), "w.ret", json!({"w": wname, "ok": false, "err": e.to_string()})),
                }
            }
            verif::finish(Some(&wname));
        }));
    }
    if !stress {
        for w in plans.keys() {
            let _ = verif::settle(w, T);
        }
    }

    // reader options
    let follow = match sc["follow"].as_str().unwrap_or("on") {
        "off" => FollowOption::Off,
        "hb" => FollowOption::WithHeartbeat(Duration::from_millis(2)),
        _ => FollowOption::On,
    };
    let last = sc["last"].as_u64().unwrap_or(0) as usize;
    let last_id = if last >= 1 && last <= hist_ids.len() { Some(hist_ids[last - 1]) } else { None };
    let limit = sc["limit"].as_u64().filter(|x| *x > 0).map(|x| x as usize);
    let rctx = sc["rctx"].as_i64().unwrap_or(-1);
    let opts = ReadOptions::builder()
        .follow(follow)
        .tail(sc["tail"].as_bool().unwrap_or(false))
        .maybe_last_id(last_id)
        .maybe_limit(limit)
        .maybe_context_id(if rctx >= 0 { Some(ctxs[rctx as usize]) } else { None })
        .build();

    let mut rx: Option<tokio::sync::mpsc::Receiver<Frame>> = None;
    let mut reader_started = false;
    let mut closed = false;
    let mut poll_last: Option<Scru128Id> = None;
    let max_pulse_steps = sc["max_pulse"].as_u64().unwrap_or(3);
    let mut hb_steps = 0u64;
    let do_poll = sc["poller"].as_bool().unwrap_or(true);

    let mut start_reader = |rx: &mut Option<tokio::sync::mpsc::Receiver<Frame>>| {
        let store = store.clone();
        let opts = opts.clone();
        verif::emit(Some("R"), "r.call", verif::read_args(&opts, opts.follow != FollowOption::Off));
        let opts2 = opts.clone();
        let got = rt.block_on(async move { store.read(opts2).await });
        verif::emit(Some("R"), "r.ret", json!({}));
        *rx = Some(got);
        // the reader's threads and tasks show up at their first gates
        let mut want = vec![];
        if !opts.tail {
            want.push(".hist");
        }
        if opts.follow != FollowOption::Off {
            want.push(".live");
        }
        if matches!(opts.follow, FollowOption::WithHeartbeat(_)) {
            want.push(".hb");
        }
        let deadline = std::time::Instant::now() + Duration::from_secs(2);
        loop {
            let acts = verif::actors();
            let ok = want.iter().all(|suf| {
                acts.iter().any(|(n, s)| n.starts_with('r') && n.ends_with(suf) && *s != ActorState::Running)
            });
            if ok || std::time::Instant::now() > deadline {
                break;
            }
            std::thread::sleep(Duration::from_micros(200));
        }
    };

    // frames other than heartbeat pulses taken off the stream so far
    let data_seen = std::cell::Cell::new(0u64);
    let consume = |rx: &mut Option<tokio::sync::mpsc::Receiver<Frame>>, closed: &mut bool, store: &Store| -> bool {
        let Some(r) = rx.as_mut() else { return false };
        if *closed {
            return false;
        }
        match r.try_recv() {
            Ok(f) => {
                let mut ev = frame_ev(&f);
                ev["cas_ok"] = json!(true);
                ev["get_ok"] = json!(true);
                if let Some(h) = f.hash.as_ref() {
                    ev["cas_ok"] = json!(store.cas_read_sync(h).is_ok());
                }
                if f.topic != "xs.threshold" && f.topic != "xs.pulse" {
                    ev["get_ok"] = json!(f.ttl == Some(TTL::Ephemeral) || store.get(&f.id).is_some());
                }
                verif::emit(Some("R"), "r.recv", ev);
                if f.topic != "xs.pulse" {
                    data_seen.set(data_seen.get() + 1);
                }
                true
            }
            Err(tokio::sync::mpsc::error::TryRecvError::Empty) => false,
            Err(tokio::sync::mpsc::error::TryRecvError::Disconnected) => {
                *closed = true;
                verif::emit(Some("R"), "r.closed", json!({}));
                true
            }
        }
    };

    let poll = |poll_last: &mut Option<Scru128Id>, store: &Store| {
        verif::emit(Some("P"), "p.call", json!({"last": poll_last.map(|i| i.to_string())}));
        let frames: Vec<Frame> = store.read_sync(poll_last.as_ref(), None, None).collect();
        if let Some(f) = frames.last() {
            *poll_last = Some(f.id);
        }
        verif::emit(Some("P"), "p.ret", json!({"res": frames.iter().map(frame_ev).collect::<Vec<_>>()}));
    };

    // one scheduled action; returns whether anything happened
    let mut act = |name: &str,
                   rx: &mut Option<tokio::sync::mpsc::Receiver<Frame>>,
                   reader_started: &mut bool,
                   closed: &mut bool,
                   poll_last: &mut Option<Scru128Id>,
                   hb_steps: &mut u64|
     -> bool {
        match name {
            "read" => {
                if *reader_started {
                    return false;
                }
                *reader_started = true;
                start_reader(rx);
                settle_all();
                true
            }
            "consumer" => {
                let r = consume(rx, closed, &store);
                if r {
                    settle_all();
                }
                r
            }
            "poll" => {
                if !do_poll {
                    return false;
                }
                poll(poll_last, &store);
                true
            }
            a => {
                // gated actors: writers by name, the reader's parts by suffix
                let target = if a == "hist" || a == "live" || a == "hb" {
                    verif::actors()
                        .into_iter()
                        .map(|(n, _)| n)
                        .find(|n| n.starts_with('r') && n.ends_with(&format!(".{a}")))
                } else {
                    Some(a.to_string())
                };
                let Some(t) = target else { return false };
                if !matches!(verif::state_of(&t), Some(ActorState::Parked(_))) {
                    return false;
                }
                if a == "hb" {
                    if *hb_steps >= max_pulse_steps {
                        return false;
                    }
                    *hb_steps += 1;
                }
                let _ = verif::step(&t, T);
                settle_all();
                true
            }
        }
    };

    // (0) hook-free stress: nobody is held at a gate; the consumer and the poller race the writers
    if stress {
        let t_end = std::time::Instant::now() + Duration::from_secs(60);
        let delay = sc["read_after"].as_u64().unwrap_or(0);
        let mut n = 0u64;
        loop {
            n += 1;
            if !reader_started && n > delay {
                reader_started = true;
                start_reader(&mut rx);
            }
            let mut k = 0;
            while k < 50 && consume(&mut rx, &mut closed, &store) {
                k += 1;
            }
            if do_poll && n % 3 == 0 {
                poll(&mut poll_last, &store);
            }
            let done = whandles.iter().all(|h| h.is_finished());
            if (done && k == 0 && reader_started) || std::time::Instant::now() > t_end {
                break;
            }
            if k == 0 {
                std::thread::sleep(Duration::from_micros(300));
            }
        }
    }
    // (1) the given schedule
    if let Some(s) = sc["sched"].as_array() {
        for a in s {
            let _ = act(a.as_str().unwrap_or(""), &mut rx, &mut reader_started, &mut closed, &mut poll_last, &mut hb_steps);
        }
    }
    // (2) random walk over what can move
    let nrand = sc["random_steps"].as_u64().unwrap_or(0);
    let mut burst: Option<(String, u32)> = None;
    for _ in 0..nrand {
        let mut cands: Vec<String> = parked()
            .into_iter()
            .map(|n| {
                if n.starts_with('r') {
                    n.rsplit('.').next().unwrap().to_string()
                } else {
                    n
                }
            })
            .collect();
        if !reader_started {
            cands.push("read".into());
        } else if !closed {
            cands.push("consumer".into());
        }
        if do_poll && rng.gen_range(0..4) == 0 {
            cands.push("poll".into());
        }
        if cands.is_empty() {
            break;
        }
        let name = match burst.take() {
            Some((n, k)) if cands.contains(&n) => {
                if k > 1 {
                    burst = Some((n.clone(), k - 1));
                }
                n
            }
            _ => {
                let n = cands[rng.gen_range(0..cands.len())].clone();
                if rng.gen_range(0..5) == 0 {
                    burst = Some((n.clone(), rng.gen_range(2..6)));
                }
                n
            }
        };
        let _ = act(&name, &mut rx, &mut reader_started, &mut closed, &mut poll_last, &mut hb_steps);
    }
    // (3) run to quiescence: everything that can move moves, the consumer drains
    if !reader_started {
        act("read", &mut rx, &mut reader_started, &mut closed, &mut poll_last, &mut hb_steps);
    }
    let mut idle_rounds = 0;
    let mut guard = 0;
    while idle_rounds < 3 && guard < 10_000 {
        guard += 1;
        let mut moved = false;
        let names: Vec<String> = parked();
        for n in names {
            let short = if n.starts_with('r') { n.rsplit('.').next().unwrap().to_string() } else { n.clone() };
            moved |= act(&short, &mut rx, &mut reader_started, &mut closed, &mut poll_last, &mut hb_steps);
        }
        while act("consumer", &mut rx, &mut reader_started, &mut closed, &mut poll_last, &mut hb_steps) {
            moved = true;
        }
        if moved {
            idle_rounds = 0;
        } else {
            idle_rounds += 1;
            std::thread::sleep(Duration::from_millis(3));
        }
    }
    // nothing is held back any more: whatever the reader still wants to do, it does now
    verif::set_gates(&["w"]);
    for _ in 0..3 {
        std::thread::sleep(Duration::from_millis(6));
        let mut k = 0;
        while k < 20 && consume(&mut rx, &mut closed, &store) {
            k += 1;
        }
    }
    // "The follower has received everything" is concluded from quiet, not from a few milliseconds: an open follow
    // stream is drained until, for 250 ms on end, nothing arrived and no actor was running (a thread that has been
    // woken but not scheduled yet on a loaded machine still counts as running or delivers within that window); 5 s cap.
    if reader_started && !closed && sc["follow"].as_str().unwrap_or("off") != "off" {
        let cap = std::time::Instant::now() + Duration::from_secs(5);
        let mut quiet_since = std::time::Instant::now();
        while !closed && std::time::Instant::now() < cap {
            let before = data_seen.get();
            let mut k = 0;
            while k < 50 && consume(&mut rx, &mut closed, &store) {
                k += 1;
            }
            // (heartbeat pulses and the heartbeat task never rest: they are not what is waited for)
            let got = data_seen.get() > before;
            let running = verif::actors().iter().any(|(n, st)| *st == ActorState::Running && !n.ends_with(".hb"));
            if got || running {
                quiet_since = std::time::Instant::now();
            } else if quiet_since.elapsed() >= Duration::from_millis(250) {
                break;
            }
            std::thread::sleep(Duration::from_millis(2));
        }
    }
    if do_poll {
        poll(&mut poll_last, &store);
    }
    let writers_done = plans.keys().all(|w| verif::state_of(w) == Some(ActorState::Finished));
    let acts: Vec<Value> = verif::actors().into_iter().map(|(a, s)| json!([a, format!("{s:?}")])).collect();
    let stored: Vec<Value> = store.read_sync(None, None, None).map(|f| frame_ev(&f)).collect();
    verif::emit(None, "quiescent", json!({"writers_done": writers_done, "closed": closed, "actors": acts, "stored": stored}));
    let log = verif::take_log();
    verif::set_log(false);
    verif::set_gates(&[]);
    drop(rx);
    let _ = whandles;

    // abstraction: ids by rank, contexts by index
    let mut ids: Vec<u128> = vec![];
    fn collect(v: &Value, ids: &mut Vec<u128>) {
        match v {
            Value::Object(o) => {
                for (k, x) in o {
                    if (k == "id" || k == "last") && x.is_string() {
                        if let Ok(i) = Scru128Id::from_str(x.as_str().unwrap()) {
                            ids.push(i.to_u128());
                        }
                    } else {
                        collect(x, ids);
                    }
                }
            }
            Value::Array(a) => a.iter().for_each(|x| collect(x, ids)),
            _ => {}
        }
    }
    // synthetic frames (threshold, pulse) carry wall-clock ids: keep them out of the ranking
    let mut data_log: Vec<Value> = vec![];
    for e in &log {
        let mut e = e.clone();
        if let Some(t) = e.get("topic").and_then(|t| t.as_str()) {
            if t == "xs.threshold" || t == "xs.pulse" {
                e["id"] = json!(-1);
            }
        }
        data_log.push(e);
    }
    for e in &data_log {
        collect(e, &mut ids);
    }
    ids.sort();
    ids.dedup();
    let rank = |s: &str| -> i64 {
        Scru128Id::from_str(s)
            .ok()
            .and_then(|i| ids.binary_search(&i.to_u128()).ok())
            .map(|p| p as i64 + 1)
            .unwrap_or(-1)
    };
    let ctx_idx = |s: &str| -> i64 {
        Scru128Id::from_str(s)
            .ok()
            .and_then(|i| ctxs.iter().position(|c| *c == i))
            .map(|p| p as i64)
            .unwrap_or(-9)
    };
    fn walk(v: &mut Value, rank: &dyn Fn(&str) -> i64, ctx_idx: &dyn Fn(&str) -> i64) {
        match v {
            Value::Object(o) => {
                for (k, x) in o.iter_mut() {
                    if (k == "id" || k == "last") && x.is_string() {
                        *x = json!(rank(x.as_str().unwrap()));
                    } else if (k == "id" || k == "last") && x.is_null() {
                        *x = json!(0);
                    } else if k == "ctx" && x.is_string() {
                        *x = json!(ctx_idx(x.as_str().unwrap()));
                    } else if k == "ctx" && x.is_null() {
                        *x = json!(-1);
                    } else if k == "limit" && x.is_null() {
                        *x = json!(0);
                    } else if (k == "ttl" || k == "hash") && x.is_null() {
                        *x = json!("none");
                    } else {
                        walk(x, rank, ctx_idx);
                    }
                }
            }
            Value::Array(a) => a.iter_mut().for_each(|x| walk(x, rank, ctx_idx)),
            _ => {}
        }
    }
    let mut out = vec![];
    for mut e in data_log {
        walk(&mut e, &rank, &ctx_idx);
        // TLC's JSON reader wants homogeneous shapes: rename ev -> e
        if let Some(ev) = e.get("ev").cloned() {
            e["e"] = ev;
            e.as_object_mut().unwrap().remove("ev");
        }
        out.push(e);
    }
    out
}

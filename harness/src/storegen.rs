//! Seeded random abstract behaviours for the store (same format as the TLC-generated ones,
//! but with W = 64, more contexts, topics and TTL values).
use rand::rngs::StdRng;
use rand::{Rng, SeedableRng};
use serde_json::{json, Value};

const W: i64 = 64;

pub fn gen(seed: u64, b: i64, nops: usize) -> Value {
    let mut rng = StdRng::seed_from_u64(seed.wrapping_mul(0x2545F4914F6CDD1D).wrapping_add(b as u64));
    let mut t: i64 = 1;
    let mut k: i64 = 0;
    let mut stored: Vec<i64> = vec![]; // abstract ids that were (probably) stored
    let mut ctxs: Vec<i64> = vec![];
    let mut nimp: i64 = 4;
    let mut ops: Vec<Value> = vec![];
    let topics = ["tA", "tAB", "tABC", "tB", "tE", "tU"];
    let profile = rng.gen_range(0..4); // 0 mixed, 1 ttl-heavy, 2 context-heavy, 3 import-heavy
    let pick_ttl = |rng: &mut StdRng| -> Value {
        let r = rng.gen_range(0..100);
        let (f, e, ti) = match profile {
            1 => (15, 25, 60),
            2 => (70, 75, 85),
            _ => (40, 50, 70),
        };
        if r < f {
            json!({"k": "forever", "n": 0})
        } else if r < e {
            json!({"k": "eph", "n": 0})
        } else if r < ti {
            json!({"k": "time", "n": rng.gen_range(1..4)})
        } else {
            json!({"k": "head", "n": rng.gen_range(1..4)})
        }
    };
    while ops.len() < nops {
        let r = rng.gen_range(0..100);
        if r < 42 {
            if k >= W / 2 - 2 {
                t += 1;
                k = 0;
                ops.push(json!({"op": "tick", "n": 1}));
                continue;
            }
            let id = t * W + W / 2 + k;
            k += 1;
            let xc = rng.gen_range(0..100) < if profile == 2 { 30 } else { 12 };
            let c = {
                let r = rng.gen_range(0..100);
                if r < 45 || (ctxs.is_empty() && stored.is_empty()) {
                    0
                } else if r < 85 && !ctxs.is_empty() {
                    ctxs[rng.gen_range(0..ctxs.len())]
                } else if r < 93 && !stored.is_empty() {
                    stored[rng.gen_range(0..stored.len())]
                } else {
                    3
                }
            };
            let topic = if xc {
                "xs.context".to_string()
            } else if rng.gen_range(0..100) < 4 {
                format!("tNUL{}", rng.gen_range(0..3))
            } else {
                topics[rng.gen_range(0..if profile == 1 || profile == 3 { 3 } else { topics.len() })].to_string()
            };
            let ttl = pick_ttl(&mut rng);
            let likely_ok = !topic.starts_with("tNUL") && (if xc { c == 0 } else { c == 0 || ctxs.contains(&c) });
            if likely_ok && (xc || ttl["k"] != "eph") {
                stored.push(id);
                if xc {
                    ctxs.push(id);
                }
            }
            ops.push(json!({"op": "append", "ctx": c, "topic": topic, "ttl": ttl}));
        } else if r < 50 {
            if stored.is_empty() {
                continue;
            }
            let i = rng.gen_range(0..stored.len());
            let id = stored[i];
            // mostly live ids, sometimes again an id already removed
            if rng.gen_bool(0.8) {
                stored.remove(i);
                ctxs.retain(|c| *c != id);
            }
            ops.push(json!({"op": "remove", "id": id}));
        } else if r < 53 && profile == 1 {
            // the clock moves while a streaming read is stalled
            let c = if rng.gen_bool(0.6) || ctxs.is_empty() { if rng.gen_bool(0.5) { -1 } else { 0 } } else { ctxs[rng.gen_range(0..ctxs.len())] };
            let n = rng.gen_range(1..3);
            let lim = [-1, -1, 2, 4][rng.gen_range(0..4)];
            let kk = rng.gen_range(0..3);
            ops.push(json!({"op": "slowread", "ctx": c, "last": -2, "lim": lim, "k": kk, "n": n}));
            t += n;
            k = 0;
        } else if r < 55 && !stored.is_empty() {
            // a frame the store has dropped by itself comes back: let the time TTLs run out, read (the expired frames are
            // handed to the collector), drain, import one of them again as it was, read again - it is owed to the collector again
            let id = stored[rng.gen_range(0..stored.len())];
            t += 4;
            k = 0;
            ops.push(json!({"op": "tick", "n": 4}));
            ops.push(json!({"op": "read", "path": if rng.gen_bool(0.5) { "sync" } else { "stream" }, "ctx": -1, "last": -2, "lim": -1}));
            ops.push(json!({"op": "drain"}));
            ops.push(json!({"op": "reimport", "id": id}));
            ops.push(json!({"op": "read", "path": if rng.gen_bool(0.5) { "sync" } else { "stream" }, "ctx": -1, "last": -2, "lim": -1}));
            if rng.gen_bool(0.5) {
                ops.push(json!({"op": "drain"}));
            }
        } else if r < 60 {
            t += 1;
            k = 0;
            ops.push(json!({"op": "tick", "n": 1}));
        } else if r < 70 {
            ops.push(json!({"op": "gc"}));
        } else if r < 75 {
            ops.push(json!({"op": "drain"}));
        } else if r < 80 {
            ops.push(json!({"op": "reopen"}));
        } else if r < (if profile == 3 { 95 } else { 88 }) {
            if nimp >= W / 2 {
                continue;
            }
            // now and then the id of a frame that is (probably) already stored: the same frame again is
            // a no-op, a different one must be rejected whole
            if !stored.is_empty() && rng.gen_range(0..100) < 10 {
                // the identical frame once more: changes nothing, whatever TTLs its topic carries
                ops.push(json!({"op": "reimport", "id": stored[rng.gen_range(0..stored.len())]}));
                continue;
            }
            if !stored.is_empty() && rng.gen_range(0..100) < 12 {
                let id = stored[rng.gen_range(0..stored.len())];
                let c = if rng.gen_bool(0.6) || ctxs.is_empty() { 0 } else { ctxs[rng.gen_range(0..ctxs.len())] };
                let topic = topics[rng.gen_range(0..3)];
                ops.push(json!({"op": "import", "id": id, "ctx": c, "topic": topic, "ttl": {"k": "forever", "n": 0}}));
                continue;
            }
            let it = rng.gen_range(0..t + 3);
            let id = it * W + nimp;
            nimp += 1;
            let xc = rng.gen_range(0..100) < 20;
            let c = if xc || rng.gen_bool(0.4) || (ctxs.is_empty() && stored.is_empty()) {
                0
            } else if !ctxs.is_empty() && rng.gen_bool(0.7) {
                ctxs[rng.gen_range(0..ctxs.len())]
            } else if !stored.is_empty() {
                stored[rng.gen_range(0..stored.len())]
            } else {
                3
            };
            let (topic, ttl) = if xc {
                ("xs.context".to_string(), json!({"k": "forever", "n": 0}))
            } else if rng.gen_range(0..100) < 6 {
                // must be rejected whole
                ops.push(json!({"op": "import", "id": id, "ctx": c, "topic": format!("tNUL{}", rng.gen_range(0..3)),
                    "ttl": {"k": "forever", "n": 0}}));
                continue;
            } else {
                let mut ttl = pick_ttl(&mut rng);
                if ttl["k"] == "eph" {
                    ttl = json!({"k": "forever", "n": 0});
                }
                (topics[rng.gen_range(0..topics.len())].to_string(), ttl)
            };
            stored.push(id);
            if xc {
                ctxs.push(id);
            }
            ops.push(json!({"op": "import", "id": id, "ctx": c, "topic": topic, "ttl": ttl}));
        } else {
            let c = if rng.gen_bool(0.3) || ctxs.is_empty() {
                if rng.gen_bool(0.5) { -1 } else { 0 }
            } else {
                ctxs[rng.gen_range(0..ctxs.len())]
            };
            let last = if stored.is_empty() || rng.gen_bool(0.4) {
                -2
            } else {
                stored[rng.gen_range(0..stored.len())]
            };
            let lim = [-1, -1, 0, 1, 2, 3][rng.gen_range(0..6)];
            let path = if rng.gen_bool(0.5) { "sync" } else { "stream" };
            ops.push(json!({"op": "read", "path": path, "ctx": c, "last": last, "lim": lim}));
        }
    }
    if profile == 3 || rng.gen_range(0..3) == 0 {
        ops.push(json!({"op": "xfer"}));
    }
    json!({"b": b, "W": W, "seed": seed.wrapping_add(b as u64), "ops": ops})
}

//! Replays abstract store behaviours (TLC-generated or random) on the real store through
//! worker processes, probes the store after every step, and writes the observation trace
//! (abstract values again) for TLC to validate against spec/TraceStore.tla.
use std::collections::{BTreeMap, BTreeSet, HashMap};
use std::io::{BufRead, BufReader, Write};
use std::path::{Path, PathBuf};
use std::process::{Child, ChildStdin, ChildStdout, Command, Stdio};
use std::str::FromStr;

use base64::Engine;
use rand::rngs::StdRng;
use rand::seq::SliceRandom;
use rand::{Rng, SeedableRng};
use scru128::Scru128Id;
use serde_json::{json, Value};

pub const BASE_MS: u64 = 1_700_000_000_000;
pub const UNIT_MS: u64 = 1000;
pub const TRACE_W: i64 = 1024;

pub struct Worker {
    child: Child,
    stdin: ChildStdin,
    stdout: BufReader<ChildStdout>,
}

impl Worker {
    pub fn spawn(dir: &Path, clock: Option<u64>, gate_gc: bool, http: bool) -> Option<(Worker, Value)> {
        let exe = std::env::current_exe().unwrap();
        let mut cmd = Command::new(exe);
        cmd.arg("worker").arg(dir);
        if let Some(c) = clock {
            cmd.arg("--clock").arg(c.to_string());
        }
        if gate_gc {
            cmd.arg("--gate-gc");
        }
        if http {
            cmd.arg("--http");
        }
        let mut child = cmd
            .stdin(Stdio::piped())
            .stdout(Stdio::piped())
            .stderr(Stdio::null())
            .spawn()
            .expect("spawn worker");
        let stdin = child.stdin.take().unwrap();
        let stdout = BufReader::new(child.stdout.take().unwrap());
        let mut w = Worker {
            child,
            stdin,
            stdout,
        };
        let ready = w.read_line();
        if ready["ready"] != json!(true) {
            // Store::new did not survive: an observation, not a harness failure
            let _ = w.child.kill();
            let _ = w.child.wait();
            return None;
        }
        Some((w, ready))
    }
    fn read_line(&mut self) -> Value {
        let mut s = String::new();
        let n = self.stdout.read_line(&mut s).unwrap();
        if n == 0 {
            return json!({"died": true});
        }
        serde_json::from_str(&s).unwrap_or(json!({"garbled": s}))
    }
    pub fn call(&mut self, req: Value) -> Value {
        if writeln!(self.stdin, "{}", req).is_err() {
            return json!({"died": true});
        }
        let _ = self.stdin.flush();
        self.read_line()
    }
    pub fn stop(mut self) {
        let _ = self.call(json!({"op": "exit"}));
        let _ = self.child.wait();
    }
    pub fn kill(mut self) {
        let _ = self.child.kill();
        let _ = self.child.wait();
    }
}

/// concretisation family: abstract token -> concrete value
pub struct Family {
    pub topics: BTreeMap<String, String>,
    pub metas: BTreeMap<String, Value>,
    pub contents: BTreeMap<String, Vec<u8>>,
}

pub fn family(seed: u64, http: bool, nu: bool) -> Family {
    let tsets: Vec<[&str; 6]> = vec![
        // tA, tAB, tABC, tB, tE, tU
        ["a", "ab", "abc", "b", "", "é"],
        ["topic", "topic.x", "topic.x.y", "other", "", "日本"],
        ["a", "a\u{1}", "a\u{1}\u{1}", "a\u{2}", "", "\u{10ffff}"],
        ["é", "é\u{301}", "é\u{301}\u{301}", "ê", "", "\u{7f}"],
        ["\u{7f}", "\u{7f}\u{80}", "\u{7f}\u{80}\u{7ff}", "\u{80}", "", "ÿ"],
        ["x", "x.", "x..", "y", "", "xs.contex"],
        ["xs.context.", "xs.context.a", "xs.context.a.b", "xs.contexu", "", "xs"],
    ];
    let mut rng = StdRng::seed_from_u64(seed);
    let mut ts = tsets[rng.gen_range(0..tsets.len())];
    if http {
        // the request line carries the topic verbatim: keep to URL-safe ASCII there
        // (and, among those, characters that are legal in a request target but that an over-eager client would escape)
        let special: [&str; 6] = ["c%", "c%2", "c%25", "a|b", "", "x^y{z}"];
        ts = [tsets[0], tsets[1], tsets[5], tsets[6], special][rng.gen_range(0..5)];
        if ts != special {
            ts[5] = "u~u";
        }
    }
    if nu {
        // a topic is a string literal in the script: printable text of any script, no control characters
        ts = [tsets[0], tsets[1], tsets[5], tsets[6]][rng.gen_range(0..4)];
    }
    let mut topics = BTreeMap::new();
    for (tok, s) in ["tA", "tAB", "tABC", "tB", "tE", "tU"].iter().zip(ts.iter()) {
        topics.insert(tok.to_string(), s.to_string());
    }
    // one family in four uses a long common prefix
    if rng.gen_range(0..4) == 0 {
        let long = "p".repeat(300);
        for tok in ["tA", "tAB", "tABC"] {
            let v = topics.get_mut(tok).unwrap();
            *v = format!("{long}{v}");
        }
    }
    topics.insert("xs.context".into(), "xs.context".into());
    topics.insert("xs.start".into(), "xs.start".into());
    topics.insert("tNUL0".into(), format!("\0{}", ts[0]));
    topics.insert("tNUL1".into(), format!("{}\0{}", ts[0], ts[3]));
    topics.insert("tNUL2".into(), format!("{}\0", ts[1]));
    let mut deep = json!(1);
    for _ in 0..40 {
        deep = json!({"d": [deep]});
    }
    let mpool: Vec<Value> = vec![
        json!({}),
        json!({"a": 1}),
        json!({"handler_id": "x", "frame_id": "y"}),
        json!({"n": u64::MAX}),
        json!({"n": i64::MIN}),
        json!({"big": 9007199254740993i64, "max": i64::MAX, "neg": -9007199254740993i64}),
        // floats without a fractional part stay floats (2^63 as a float is not i64::MAX)
        json!({"w": 1.0, "h": -3.0, "e": 1e15, "p": 9223372036854775808.0, "q": 2.5}),
        json!({"f": 1e300}),
        json!({"s": "esc \" \\ \n \u{1} \u{10ffff} é"}),
        json!([1, "two", null, true]),
        json!("just a string"),
        json!(12345),
        deep,
        json!({"big": "x".repeat(5000)}),
        // one line of NDJSON that needs several reads on the client side
        json!({"huge": "0123456789abcdef".repeat(2600), "tail": "end"}),
    ];
    let mut idx: Vec<usize> = (0..mpool.len()).collect();
    idx.shuffle(&mut rng);
    if nu {
        // `.append --meta` takes a record; an integer above i64::MAX becomes a float inside nu (not claimed by any property)
        idx.retain(|&i| mpool[i].is_object() && mpool[i] != json!({}) && mpool[i] != json!({"n": u64::MAX}));
    }
    let mut metas = BTreeMap::new();
    for (i, tok) in ["m1", "m2", "m3"].iter().enumerate() {
        metas.insert(tok.to_string(), mpool[idx[i]].clone());
    }
    let cpool: Vec<Vec<u8>> = vec![
        vec![0u8],
        b"hello".to_vec(),
        vec![0xff, 0xfe, 0x00, 0x80],
        vec![b'x'; 8191],
        vec![b'y'; 8193],
        (0..70000u32).map(|i| (i % 251) as u8).collect(),
        "héllo wörld".as_bytes().to_vec(),
    ];
    let mut idx: Vec<usize> = (0..cpool.len()).collect();
    idx.shuffle(&mut rng);
    let mut contents = BTreeMap::new();
    for (i, tok) in ["b1", "b2", "b3"].iter().enumerate() {
        contents.insert(tok.to_string(), cpool[idx[i]].clone());
    }
    Family {
        topics,
        metas,
        contents,
    }
}

/// ids the harness makes up (imports, never-registered contexts): consecutive k are *numerically
/// adjacent* ids whose increment carries over four byte boundaries (even k ends in ff ff ff ff, k + 1 is
/// that plus one), so that contexts registered by import probe the [ctx, ctx + 1) range arithmetic
pub fn foreign_id(t: u64, k: u32) -> Scru128Id {
    let even = Scru128Id::from_fields(BASE_MS + t * UNIT_MS, k & !1, 0, 0xffff_ffff);
    if k & 1 == 0 {
        even
    } else {
        Scru128Id::from_u128(even.to_u128() + 1)
    }
}

fn foreign_k(id: &Scru128Id) -> Option<i64> {
    if id.counter_lo() == 0 && id.entropy() == 0xffff_ffff && id.counter_hi() & 1 == 0 {
        Some(id.counter_hi() as i64)
    } else if id.counter_lo() == 1 && id.entropy() == 0 && id.counter_hi() & 1 == 0 {
        Some(id.counter_hi() as i64 + 1)
    } else {
        None
    }
}

pub fn ttl_str(ttl: &Value) -> String {
    let n = ttl["n"].as_u64().unwrap_or(0);
    match ttl["k"].as_str().unwrap() {
        "forever" => "forever".into(),
        "eph" => "ephemeral".into(),
        "time" => format!("time:{}", n * UNIT_MS),
        "head" => format!("head:{n}"),
        o => panic!("ttl kind {o}"),
    }
}

pub fn ttl_abs(s: Option<&str>) -> Value {
    match s {
        None => json!({"k": "absent", "n": 0}),
        Some("forever") => json!({"k": "forever", "n": 0}),
        Some("ephemeral") => json!({"k": "eph", "n": 0}),
        Some(x) if x.starts_with("time:") => {
            let ms: u64 = x[5..].parse().unwrap_or(u64::MAX);
            if ms % UNIT_MS == 0 && ms / UNIT_MS < 1_000_000 {
                json!({"k": "time", "n": ms / UNIT_MS})
            } else {
                json!({"k": "time", "n": -1})
            }
        }
        Some(x) if x.starts_with("head:") => {
            json!({"k": "head", "n": x[5..].parse::<i64>().unwrap_or(-1)})
        }
        Some(_) => json!({"k": "unknown", "n": 0}),
    }
}

pub struct Run {
    pub seed: u64,
    pub fam: Family,
    pub rng: StdRng,
    pub dir: PathBuf,
    pub root: PathBuf,
    pub w: Option<Worker>,
    pub gate_gc: bool,
    pub t: u64,
    pub o: u64,
    pub wb: i64,
    pub appended: BTreeMap<u64, Vec<Option<String>>>,
    pub seen: BTreeSet<String>,
    pub known_ids: Vec<String>,
    pub eph_ids: Vec<String>,
    pub ctxs: Vec<String>,
    pub hash_tok: HashMap<String, String>,
    pub events: Vec<Value>,
    pub probes_per_step: usize,
    pub topics_used: BTreeSet<String>,
    pub ndirs: u32,
    pub dead: bool,
    pub http: bool,
    /// operations go through the real `xs` binary (XSV_CLI names it); implies `http` (the worker serves the API)
    pub cli: bool,
    /// the behaviour was cut short because the command line tool printed nothing after a successful call
    pub lost: bool,
    /// id of the newest frame appended (not imported) so far
    pub last_appended: Option<String>,
    /// every stored frame seen so far, as last seen
    pub frame_by_id: HashMap<String, Value>,
    /// operations go through nu scripts using the commands xs gives to scripts (XSV_NU set); no API server
    pub nu: bool,
    pub tok_hash: HashMap<String, String>,
}

fn idref(s: &str) -> Value {
    json!(format!("ID:{s}"))
}

impl Run {
    pub fn new(root: &Path, seed: u64, wb: i64, gate_gc: bool, probes: usize, http: bool) -> Run {
        let dir = root.join("s0");
        std::fs::create_dir_all(&dir).unwrap();
        let mut r = Run {
            seed,
            fam: family(seed, http, std::env::var("XSV_NU").is_ok()),
            rng: StdRng::seed_from_u64(seed ^ 0x9e3779b97f4a7c15),
            dir,
            root: root.to_path_buf(),
            w: None,
            gate_gc,
            t: 1,
            o: 1,
            wb,
            appended: BTreeMap::new(),
            seen: BTreeSet::new(),
            known_ids: vec![],
            eph_ids: vec![],
            ctxs: vec![],
            hash_tok: HashMap::new(),
            events: vec![],
            probes_per_step: probes,
            topics_used: BTreeSet::new(),
            ndirs: 1,
            dead: false,
            http,
            cli: http && std::env::var("XSV_CLI").map(|s| !s.is_empty()).unwrap_or(false),
            lost: false,
            frame_by_id: HashMap::new(),
            last_appended: None,
            nu: std::env::var("XSV_NU").is_ok(),
            tok_hash: HashMap::new(),
        };
        r.start_worker();
        r
    }
    /// (re)start the store process; in HTTP mode the server announces itself with an xs.start frame
    fn start_worker(&mut self) -> bool {
        match Worker::spawn(&self.dir, Some(self.now()), self.gate_gc, self.http) {
            None => {
                self.w = None;
                self.dead = true;
                self.events.push(json!({"e": "crash", "at": "open"}));
                false
            }
            Some((w, ready)) => {
                self.w = Some(w);
                if !ready["start"].is_null() {
                    let f = ready["start"].clone();
                    let id = f["id"].as_str().unwrap_or("").to_string();
                    self.known_ids.push(id);
                    self.topics_used.insert("xs.start".into());
                    let a = self.abs_frame(&f);
                    self.events.push(json!({"e": "append", "ctx": a["ctx"], "topic": a["topic"], "ttl": a["ttl"],
                        "meta": a["meta"], "hash": a["hash"], "ok": true, "id": a["id"], "f": a, "status": 0, "via": "api", "front": true}));
                }
                true
            }
        }
    }
    pub fn now(&self) -> u64 {
        BASE_MS + self.t * UNIT_MS + self.o
    }
    fn call(&mut self, req: Value) -> Value {
        if self.dead || self.w.is_none() {
            return json!({"dead": true});
        }
        let op = req["op"].clone();
        let r = self.w.as_mut().unwrap().call(req);
        if r.get("died").is_some() {
            self.dead = true;
            self.events.push(json!({"e": "crash", "at": op}));
        } else if let Some(p) = r.get("panic") {
            self.events.push(json!({"e": "panic", "at": op, "msg": p}));
        } else if r.get("lost").is_some() {
            // the command line tool reported success and printed nothing (seen about once in 5000 `xs append` calls on
            // a loaded machine: main() returns without flushing tokio's stdout): what was appended is not known, so
            // the behaviour ends here - an observation outside the listed properties, counted, never a verdict
            self.dead = true;
            self.lost = true;
            self.events.push(json!({"e": "cli_output_lost", "at": op}));
            return json!({"dead": true});
        }
        r
    }
    /// how the operations reach the store
    fn via(&self) -> &'static str {
        if self.nu {
            "nu"
        } else if self.cli {
            "cli"
        } else if self.http {
            "http"
        } else {
            "api"
        }
    }
    /// C13 (C12 for the command line): the front end's answer is the store's answer in the same state. `req` is
    /// repeated on the Store API (nothing runs in between: collector gated, virtual clock) and `key` compared.
    fn faithful(&mut self, req: &Value, front: &Value, key: &str) -> bool {
        if !(self.http || self.nu) || self.dead {
            return true;
        }
        let mut r2 = req.clone();
        r2["direct"] = json!(true);
        if r2["op"] == "read" {
            // `GET /` is `Store::read`, `.cat` is `Store::read_sync`
            r2["path"] = json!(if self.nu { "sync" } else { "stream" });
        }
        let d = self.call(r2);
        if Self::failed(&d) {
            return true;
        }
        // (frames are compared as frames: an absent and a null field are the same frame)
        let as_frame = |v: &Value| serde_json::from_value::<xs::store::Frame>(v.clone()).ok();
        match (as_frame(&d[key]), as_frame(&front[key])) {
            (Some(a), Some(b)) => a == b,
            _ => d[key] == front[key],
        }
    }
    fn failed(resp: &Value) -> bool {
        resp.get("dead").is_some() || resp.get("died").is_some() || resp.get("panic").is_some()
    }
    fn zero() -> String {
        Scru128Id::from_u128(0).to_string()
    }

    /// model id (W = wb) -> real id string; None for ALL / NOID
    pub fn resolve(&self, m: i64) -> Option<String> {
        if m < 0 {
            return None;
        }
        if m == 0 {
            return Some(Self::zero());
        }
        let t = (m / self.wb) as u64;
        let k = m % self.wb;
        if k < self.wb / 2 {
            return Some(foreign_id(t, k as u32).to_string());
        }
        let j = (k - self.wb / 2) as usize;
        match self.appended.get(&t).and_then(|v| v.get(j)).cloned().flatten() {
            Some(s) => Some(s),
            None => Some(foreign_id(t, 20 + j as u32).to_string()),
        }
    }

    fn note_id(&mut self, s: &str) {
        self.seen.insert(s.to_string());
    }

    fn abs_frame(&mut self, f: &Value) -> Value {
        let id = f["id"].as_str().unwrap_or("").to_string();
        let ctx = f["context_id"].as_str().unwrap_or("").to_string();
        if f["topic"] != "xs.threshold" && f["topic"] != "xs.pulse" && f.get("ttl").is_some() {
            self.frame_by_id.insert(id.clone(), f.clone());
        }
        self.note_id(&id);
        self.note_id(&ctx);
        let topic_s = f["topic"].as_str().unwrap_or("");
        let topic = self
            .fam
            .topics
            .iter()
            .find(|(_, v)| v.as_str() == topic_s)
            .map(|(k, _)| k.clone())
            .unwrap_or(format!("?{topic_s}"));
        let meta = if f["meta"].is_null() {
            "none".to_string()
        } else {
            self.fam
                .metas
                .iter()
                .find(|(_, v)| **v == f["meta"])
                .map(|(k, _)| k.clone())
                .unwrap_or("?meta".into())
        };
        let hash = match f["hash"].as_str() {
            None => "none".to_string(),
            Some(h) => self.hash_tok.get(h).cloned().unwrap_or("?hash".into()),
        };
        json!({"id": idref(&id), "topic": topic, "ctx": idref(&ctx), "ttl": ttl_abs(f["ttl"].as_str()),
               "meta": meta, "hash": hash})
    }

    // ------------------------------------------------------------------ operations

    pub fn op_append(&mut self, ctx_real: &str, topic: &str, ttl: &Value, meta: &str, content: &str) {
        if self.dead {
            return;
        }
        if (self.http || self.nu) && topic.starts_with("tNUL") {
            // a raw NUL cannot be sent in a request line (or written in a script); the model's k still advances
            let t = self.t;
            self.appended.entry(t).or_default().push(None);
            return;
        }
        // (a script's `.append` always stamps a record: without --meta the frame carries the empty base record)
        let meta = if self.nu && !self.fam.metas.contains_key(meta) { "m1" } else { meta };
        let topic_s = self.fam.topics.get(topic).cloned().unwrap_or(topic.to_string());
        let meta_v = self.fam.metas.get(meta).cloned().unwrap_or(Value::Null);
        let content_v = self
            .fam
            .contents
            .get(content)
            .map(|b| json!(base64::prelude::BASE64_STANDARD.encode(b)))
            .unwrap_or(Value::Null);
        let rq = json!({"op": "append", "ctx": ctx_real, "topic": topic_s,
            "ttl": ttl_str(ttl), "meta": meta_v, "content": content_v});
        let mut resp = self.call(rq.clone());
        if Self::failed(&resp) {
            let t = self.t;
            self.appended.entry(t).or_default().push(None);
            return;
        }
        let mut via = self.via();
        if (self.http || self.nu) && resp["ok"] != json!(true) {
            // C13 (C12 for the command line): does the Store API refuse it too? If it accepts, the front end refused what
            // the store takes: that refusal is the front end's, and the accepted append is the one that counts from here on
            let mut r2 = rq.clone();
            r2["direct"] = json!(true);
            let d = self.call(r2);
            if !Self::failed(&d) && d["ok"] == json!(true) {
                self.events.push(json!({"e": "append", "ctx": idref(ctx_real), "topic": topic, "ttl": ttl, "meta": meta,
                    "hash": content, "ok": false, "id": -2,
                    "f": {"id": -2, "topic": topic, "ctx": idref(ctx_real), "ttl": ttl, "meta": meta, "hash": content},
                    "status": resp["status"].as_i64().unwrap_or(0), "via": via, "front": false}));
                resp = d;
                via = "api";
            }
        }
        self.record_append(resp, via, ctx_real, topic, ttl, meta, content);
    }

    /// the outcome of an append, as an event
    fn record_append(&mut self, resp: Value, via: &str, ctx_real: &str, topic: &str, ttl: &Value, meta: &str, content: &str) {
        self.note_id(ctx_real);
        self.topics_used.insert(topic.to_string());
        let ok = resp["ok"] == json!(true);
        let t = self.t;
        let (idv, fv) = if ok {
            let f = resp["frame"].clone();
            if let Some(h) = f["hash"].as_str() {
                self.hash_tok.entry(h.to_string()).or_insert(content.to_string());
                // C10: the hash is a function of the bytes alone (across calls, entry points, restarts)
                let prev = self.tok_hash.entry(content.to_string()).or_insert(h.to_string()).clone();
                if prev != h {
                    self.events.push(json!({"e": "cas", "what": "same bytes, different hash", "ok": false}));
                }
            }
            let id = f["id"].as_str().unwrap().to_string();
            self.last_appended = Some(id.clone());
            self.appended.entry(t).or_default().push(Some(id.clone()));
            if ttl["k"] == "eph" && topic != "xs.context" {
                self.eph_ids.push(id.clone());
            } else {
                self.known_ids.push(id.clone());
                if topic == "xs.context" {
                    self.ctxs.push(id.clone());
                }
            }
            let a = self.abs_frame(&f);
            (a["id"].clone(), a)
        } else {
            self.appended.entry(t).or_default().push(None);
            (
                json!(-2),
                json!({"id": -2, "topic": topic, "ctx": idref(ctx_real), "ttl": ttl, "meta": meta, "hash": content}),
            )
        };
        let mut ev = json!({"e": "append", "ctx": idref(ctx_real), "topic": topic, "ttl": ttl, "meta": meta,
            "hash": content, "ok": ok, "id": idv, "f": fv, "status": resp["status"].as_i64().unwrap_or(0),
            "via": via, "front": true});
        if let Some(p) = resp.get("panic") {
            ev["panic"] = p.clone();
        }
        self.events.push(ev);
    }

    pub fn op_import_concrete(&mut self, frame: &Value, content_tok_hint: Option<&str>) {
        let resp = self.call(json!({"op": "import", "frame": frame}));
        if Self::failed(&resp) {
            return;
        }
        let ok = resp["ok"] == json!(true);
        if let (Some(h), Some(tok)) = (frame["hash"].as_str(), content_tok_hint) {
            self.hash_tok.entry(h.to_string()).or_insert(tok.to_string());
        }
        let a = self.abs_frame(frame);
        if ok {
            let id = frame["id"].as_str().unwrap().to_string();
            if !self.known_ids.contains(&id) {
                self.known_ids.push(id.clone());
            }
            if frame["topic"] == "xs.context" && frame["context_id"].as_str() == Some(&Self::zero()) {
                if !self.ctxs.contains(&id) {
                    self.ctxs.push(id);
                }
            }
        }
        // C13: an import the front end reports as stored is in the store, exactly as sent
        let same = !ok || {
            let fr = json!({"frame": frame});
            self.faithful(&json!({"op": "get", "id": frame["id"]}), &fr, "frame")
        };
        self.events.push(json!({"e": "import", "f": a, "ok": ok, "status": resp["status"].as_i64().unwrap_or(0),
            "via": self.via(), "same": same}));
    }

    pub fn op_import(&mut self, id_real: &str, ctx_real: &str, topic: &str, ttl: &Value, meta: &str) {
        let topic_s = self.fam.topics.get(topic).cloned().unwrap_or(topic.to_string());
        let mut f = json!({"id": id_real, "context_id": ctx_real, "topic": topic_s, "ttl": ttl_str(ttl)});
        if let Some(m) = self.fam.metas.get(meta) {
            f["meta"] = m.clone();
        }
        self.topics_used.insert(topic.to_string());
        self.op_import_concrete(&f, None);
    }

    pub fn op_remove(&mut self, id_real: &str) {
        let resp = self.call(json!({"op": "remove", "id": id_real}));
        if Self::failed(&resp) {
            return;
        }
        self.note_id(id_real);
        // C13: after a remove through the front end the Store API does not find the frame any more
        let same = self.faithful(&json!({"op": "get", "id": id_real}), &json!({"frame": null}), "frame");
        self.events.push(json!({"e": "remove", "id": idref(id_real), "status": resp["status"].as_i64().unwrap_or(0),
            "via": self.via(), "same": same}));
    }

    pub fn op_tick(&mut self, n: u64) {
        self.t += n;
        let now = self.now();
        let _ = self.call(json!({"op": "clock", "ms": now}));
        self.events.push(json!({"e": "tick", "n": n}));
    }

    pub fn op_gc(&mut self, wait_ms: u64) {
        let r = self.call(json!({"op": "gc_step", "wait_ms": wait_ms}));
        self.events.push(json!({"e": "gc", "stepped": r["stepped"]}));
    }

    pub fn op_read(&mut self, path: &str, ctx: Option<&str>, last: Option<&str>, lim: Option<u64>) {
        // `tail` without `follow`: no history, no live side - the read is empty (streaming path / HTTP only)
        let tail = (path == "stream" || self.http) && self.rng.gen_range(0..12) == 0;
        let rq = json!({"op": "read", "path": path, "ctx": ctx, "last": last, "limit": lim, "tail": tail});
        let resp = self.call(rq.clone());
        if Self::failed(&resp) {
            return;
        }
        let same = resp["status"] != json!(200) || self.faithful(&rq, &resp, "frames");
        let frames: Vec<Value> = resp["frames"].as_array().cloned().unwrap_or_default();
        let res: Vec<Value> = frames.iter().map(|f| self.abs_frame(f)).collect();
        if let Some(c) = ctx {
            self.note_id(c);
        }
        if let Some(c) = last {
            self.note_id(c);
        }
        let mut ev = json!({"e": "read", "path": path,
            "ctx": ctx.map(idref).unwrap_or(json!(-1)),
            "last": last.map(idref).unwrap_or(json!(-2)),
            "lim": lim.map(|x| json!(x)).unwrap_or(json!(-1)),
            "res": res, "status": resp["status"].as_i64().unwrap_or(0), "tail": tail, "via": self.via(), "same": same});
        if let Some(p) = resp.get("panic") {
            ev["panic"] = p.clone();
        }
        self.events.push(ev);
        if resp["renderings_agree"] == json!(false) {
            self.events.push(json!({"e": "bad", "class": "renderings_differ", "status": 0, "expect": "agree",
                "same": false, "next": 200}));
        }
    }

    /// C09/C08: the clock advances by n units while a streaming read is stalled after k frames
    pub fn op_read_slow(&mut self, ctx: Option<&str>, last: Option<&str>, lim: Option<u64>, k: u64, n: u64) {
        if self.http || self.dead {
            return;
        }
        let resp = self.call(json!({"op": "read_slow", "ctx": ctx, "last": last, "limit": lim, "k": k,
            "advance_ms": n * UNIT_MS}));
        if Self::failed(&resp) {
            return;
        }
        self.t += n;
        let frames: Vec<Value> = resp["frames"].as_array().cloned().unwrap_or_default();
        let res: Vec<Value> = frames.iter().map(|f| self.abs_frame(f)).collect();
        self.events.push(json!({"e": "slowread",
            "ctx": ctx.map(idref).unwrap_or(json!(-1)),
            "last": last.map(idref).unwrap_or(json!(-2)),
            "lim": lim.map(|x| json!(x)).unwrap_or(json!(-1)),
            "res": res, "k": resp["k"], "n": n}));
    }

    pub fn op_get(&mut self, id: &str) {
        let rq = json!({"op": "get", "id": id});
        let resp = self.call(rq.clone());
        if Self::failed(&resp) {
            return;
        }
        let same = self.faithful(&rq, &resp, "frame");
        self.note_id(id);
        let res: Vec<Value> = if resp["frame"].is_null() {
            vec![]
        } else {
            vec![self.abs_frame(&resp["frame"].clone())]
        };
        self.events
            .push(json!({"e": "get", "id": idref(id), "res": res, "status": resp["status"].as_i64().unwrap_or(0),
                "via": self.via(), "same": same}));
    }

    pub fn op_head(&mut self, topic: &str, ctx: &str) {
        if (self.http || self.nu) && topic.starts_with("tNUL") {
            return; // a raw NUL cannot travel in a request line
        }
        let topic_s = self.fam.topics.get(topic).cloned().unwrap_or(topic.to_string());
        let rq = json!({"op": "head", "topic": topic_s, "ctx": ctx});
        let resp = self.call(rq.clone());
        if Self::failed(&resp) {
            return;
        }
        let same = self.faithful(&rq, &resp, "frame");
        self.note_id(ctx);
        let res: Vec<Value> = if resp["frame"].is_null() {
            vec![]
        } else {
            vec![self.abs_frame(&resp["frame"].clone())]
        };
        self.events.push(json!({"e": "head", "topic": topic, "ctx": idref(ctx), "res": res,
            "status": resp["status"].as_i64().unwrap_or(0), "via": self.via(), "same": same}));
    }

    fn abs_dump(&mut self, d: &Value) -> Value {
        let hex_id = |h: &str| -> String {
            let v = u128::from_str_radix(h, 16).unwrap_or(0);
            Scru128Id::from_u128(v).to_string()
        };
        let mut stream = vec![];
        for e in d["stream"].as_array().cloned().unwrap_or_default() {
            let id = hex_id(e[0].as_str().unwrap_or("0"));
            self.note_id(&id);
            stream.push(idref(&id));
        }
        let mut idxt = vec![];
        for e in d["idx_topic"].as_array().cloned().unwrap_or_default() {
            let h = e.as_str().unwrap_or("");
            if h.len() < 66 {
                idxt.push(json!([-9, "?short", -9]));
                continue;
            }
            let ctx = hex_id(&h[..32]);
            let id = hex_id(&h[h.len() - 32..]);
            let tb: Vec<u8> = (32..h.len() - 34)
                .step_by(2)
                .map(|i| u8::from_str_radix(&h[i..i + 2], 16).unwrap_or(0))
                .collect();
            let delim = &h[h.len() - 34..h.len() - 32];
            let ts = String::from_utf8_lossy(&tb).to_string();
            let tok = if delim != "00" {
                format!("?nodelim:{ts}")
            } else {
                self.fam
                    .topics
                    .iter()
                    .find(|(_, v)| **v == ts)
                    .map(|(k, _)| k.clone())
                    .unwrap_or(format!("?{ts}"))
            };
            self.note_id(&ctx);
            self.note_id(&id);
            idxt.push(json!([idref(&ctx), tok, idref(&id)]));
        }
        let mut idxc = vec![];
        for e in d["idx_context"].as_array().cloned().unwrap_or_default() {
            let h = e.as_str().unwrap_or("");
            if h.len() != 64 {
                idxc.push(json!([-9, -9]));
                continue;
            }
            let ctx = hex_id(&h[..32]);
            let id = hex_id(&h[32..]);
            self.note_id(&ctx);
            self.note_id(&id);
            idxc.push(json!([idref(&ctx), idref(&id)]));
        }
        let mut ctxs = vec![];
        for e in d["contexts"].as_array().cloned().unwrap_or_default() {
            let s = e.as_str().unwrap_or("").to_string();
            self.note_id(&s);
            ctxs.push(idref(&s));
        }
        json!({"stream": stream, "idxT": idxt, "idxC": idxc, "contexts": ctxs})
    }

    pub fn op_drain(&mut self) {
        let resp = self.call(json!({"op": "drain"}));
        if Self::failed(&resp) {
            return;
        }
        let d = self.abs_dump(&resp["dump"].clone());
        self.events.push(json!({"e": "drain", "dump": d}));
    }

    pub fn op_dump(&mut self) {
        if !self.gate_gc {
            return;
        }
        let resp = self.call(json!({"op": "dump"}));
        if Self::failed(&resp) {
            return;
        }
        let d = self.abs_dump(&resp["dump"].clone());
        self.events.push(json!({"e": "dump", "dump": d}));
    }

    pub fn op_reopen(&mut self) {
        if let Some(w) = self.w.take() {
            w.stop();
        }
        self.o += 1;
        self.events.push(json!({"e": "reopen"}));
        if !self.start_worker() {
            return;
        }
    }

    /// C20: export everything the source returns and import it, permuted and with duplicates,
    /// into an empty store; later operations address the target
    pub fn op_xfer(&mut self) {
        self.full_probe();
        let resp = self.call(json!({"op": "read", "path": "sync", "ctx": null, "last": null, "limit": null}));
        if Self::failed(&resp) {
            return;
        }
        let mut frames: Vec<Value> = resp["frames"].as_array().cloned().unwrap_or_default();
        // the read above is an observation too
        let res: Vec<Value> = frames.iter().map(|f| self.abs_frame(f)).collect();
        self.events
            .push(json!({"e": "read", "path": "sync", "ctx": -1, "last": -2, "lim": -1, "res": res,
                "status": resp["status"].as_i64().unwrap_or(0), "tail": false, "via": self.via(), "same": true}));
        // contents
        let mut blobs: Vec<(String, Value)> = vec![];
        for f in &frames {
            if let Some(h) = f["hash"].as_str() {
                let r = self.call(json!({"op": "cas_read", "hash": h}));
                blobs.push((h.to_string(), r["content"].clone()));
            }
        }
        self.events.push(json!({"e": "xfer_begin"}));
        if let Some(w) = self.w.take() {
            w.stop();
        }
        self.dir = self.root.join(format!("s{}", self.ndirs));
        self.ndirs += 1;
        std::fs::create_dir_all(&self.dir).unwrap();
        self.o += 1;
        self.known_ids.clear();
        self.eph_ids.clear();
        self.ctxs.clear();
        // only the transferred content exists in the target
        let moved: Vec<String> = blobs.iter().map(|(h, _)| h.clone()).collect();
        self.tok_hash.retain(|_, h| moved.contains(h));
        if !self.start_worker() {
            return;
        }
        for (h, c) in blobs {
            if c.is_string() {
                let r = self.call(json!({"op": "cas_put", "content": c}));
                if self.lost {
                    return;
                }
                self.events.push(json!({"e": "cas", "what": "transfer: same hash in the target", "ok": r["hash"].as_str() == Some(&h)}));
            }
        }
        frames.shuffle(&mut self.rng);
        let n = frames.len();
        for i in 0..n {
            if self.rng.gen_range(0..4) == 0 {
                let d = frames[self.rng.gen_range(0..n)].clone();
                frames.push(d);
            }
            let _ = i;
        }
        for f in frames {
            self.op_import_concrete(&f, None);
        }
        self.full_probe();
        if self.lost {
            // the behaviour ended inside the transfer (tool output lost): the target is incomplete by construction
            return;
        }
        self.events.push(json!({"e": "xfer_end"}));
        // usable contexts must be the same: try an append into each
        for c in self.ctxs.clone() {
            self.op_append(&c, "tB", &json!({"k": "forever", "n": 0}), "none", "none");
        }
    }

    // ------------------------------------------------------------------ probes

    fn ctx_pool(&self) -> Vec<Option<String>> {
        let mut v: Vec<Option<String>> = vec![None, Some(Self::zero())];
        for c in &self.ctxs {
            v.push(Some(c.clone()));
        }
        v.push(Some(foreign_id(0, 3).to_string()));
        // a context id adjacent to a registered one
        if let Some(c) = self.ctxs.first() {
            let x = Scru128Id::from_str(c).unwrap().to_u128();
            v.push(Some(Scru128Id::from_u128(x + 1).to_string()));
        }
        v
    }

    /// C10: content reads back byte for byte; another entry point reports the same hash
    pub fn op_cas_probe(&mut self) {
        let toks: Vec<(String, String)> = self.tok_hash.iter().map(|(k, v)| (k.clone(), v.clone())).collect();
        if toks.is_empty() || self.dead {
            return;
        }
        let (tok, hash) = toks[self.rng.gen_range(0..toks.len())].clone();
        let Some(bytes) = self.fam.contents.get(&tok).cloned() else { return };
        let r = self.call(json!({"op": "cas_read", "hash": hash}));
        if Self::failed(&r) {
            return;
        }
        let got = r["content"].as_str().and_then(|b| base64::prelude::BASE64_STANDARD.decode(b).ok());
        self.events.push(json!({"e": "cas", "what": "read back", "ok": got.as_deref() == Some(&bytes[..])}));
        if self.rng.gen_bool(0.3) {
            let r = self.call(json!({"op": "cas_put", "content": base64::prelude::BASE64_STANDARD.encode(&bytes)}));
            if Self::failed(&r) {
                return;
            }
            self.events.push(json!({"e": "cas", "what": "same hash from the other entry point",
                "ok": r["hash"].as_str() == Some(hash.as_str())}));
        }
    }

    /// C10 where the sampled histories do not reach: a failed write that is repeated, and concurrent writers of the same bytes
    /// (Store::cas_insert / cas_insert_sync, the entry points of handler, command and generator output)
    pub fn op_cas_hard(&mut self) {
        if self.dead {
            return;
        }
        if self.rng.gen_bool(0.5) {
            let mut bytes = self.fam.contents.values().next().cloned().unwrap_or_default();
            bytes.extend_from_slice(format!("-{}-{}", self.rng.gen::<u64>(), self.events.len()).as_bytes());
            let entry = if self.rng.gen_bool(0.5) { "insert" } else { "insert_sync" };
            let r = self.call(json!({"op": "cas_fault", "direct": true, "entry": entry,
                "content": base64::prelude::BASE64_STANDARD.encode(&bytes)}));
            if Self::failed(&r) {
                return;
            }
            if r["second_ok"] == json!(true) {
                self.events.push(json!({"e": "cas", "what": "a write that failed and was repeated: the reported hash reads back",
                    "injected": r["first_failed"], "ok": r["readable"] == json!(true) && r["same"] == json!(true)}));
            }
        } else {
            let size = [1usize << 20, 4 << 20, 6 << 20][self.rng.gen_range(0..3)];
            let (seed, writers) = (self.rng.gen::<u64>(), self.rng.gen_range(2..5));
            let r = self.call(json!({"op": "cas_race", "direct": true, "size": size, "seed": seed, "writers": writers}));
            if Self::failed(&r) {
                return;
            }
            self.events.push(json!({"e": "cas", "what": "concurrent writers of the same bytes: readable as soon as any of them returns",
                "ok": r["readable"] == json!(true) && r["same"] == json!(true) && r["one_hash"] == json!(true)}));
        }
    }

    /// C02 over HTTP: an upload that is still open while another client's append completes and is observed - the frame of
    /// the slow upload is appended when its body is complete, i.e. after the other one, and gets the larger id
    pub fn op_slow_append(&mut self) {
        if !self.http || self.cli || self.dead {
            return;
        }
        let pool: Vec<String> = std::iter::once(Self::zero()).chain(self.ctxs.iter().cloned()).collect();
        let ctx = pool[self.rng.gen_range(0..pool.len())].clone();
        let other = pool[self.rng.gen_range(0..pool.len())].clone();
        let topic = ["tA", "tAB", "tB"][self.rng.gen_range(0..3)];
        let topic_s = self.fam.topics.get(topic).cloned().unwrap();
        let ctok = ["b1", "b2", "b3"][self.rng.gen_range(0..3)];
        let bytes = self.fam.contents.get(ctok).cloned().unwrap_or_default();
        if bytes.is_empty() {
            return;
        }
        let cut = (bytes.len() / 2).max(1).min(bytes.len());
        let r = self.call(json!({"op": "slow_open", "target": format!("/{topic_s}?context={ctx}"),
            "first": base64::prelude::BASE64_STANDARD.encode(&bytes[..cut])}));
        if Self::failed(&r) || r["status"] != json!(0) {
            return;
        }
        // (let the server take the request in; nothing is concluded from this pause)
        std::thread::sleep(std::time::Duration::from_millis(40));
        let forever = json!({"k": "forever", "n": 0});
        self.op_append(&other, "tABC", &forever, "none", "none");
        self.op_read("sync", Some(other.as_str()), None, None);
        let resp = self.call(json!({"op": "slow_finish", "rest": base64::prelude::BASE64_STANDARD.encode(&bytes[cut..])}));
        if Self::failed(&resp) {
            return;
        }
        // (no ttl parameter: the route's default)
        self.record_append(resp, "http", &ctx, topic, &forever, "none", ctok);
    }

    pub fn op_bad(&mut self, class: &str) {
        let resp = self.call(json!({"op": "bad", "class": class}));
        if Self::failed(&resp) {
            return;
        }
        self.events.push(json!({"e": "bad", "class": class, "status": resp["status"], "expect": resp["expect"],
            "same": resp["same"], "next": resp["next_status"]}));
    }

    /// C06 / C03 over HTTP: a follow stream (GET /?follow or GET /head/{topic}?follow) scoped to one
    /// context stays open while frames are appended to that and to other contexts
    pub fn op_follow_probe(&mut self) {
        if !self.http || self.dead {
            return;
        }
        let pool: Vec<String> = std::iter::once(Self::zero()).chain(self.ctxs.iter().cloned()).collect();
        let ctx = pool[self.rng.gen_range(0..pool.len())].clone();
        let kind = self.rng.gen_range(0..10);
        // through the command line nothing tells when the subscription exists, so only the streams that replay the
        // history first (whatever is appended early is history, whatever is appended late is live) are probed there
        let head = kind < 5 && !self.cli;
        // follow from the beginning: the whole history, then what is appended while the stream is open
        let hist_route = kind < 8 && !head && (self.cli || self.rng.gen_bool(0.5));
        // a limit inside the history, or just beyond it (so that live frames - arriving after some pulses - count)
        // the context's history as a plain read sees it right now
        let mut hist: u64 = 0;
        let mut hist_max = String::new();
        if kind >= 8 || hist_route {
            for _ in 0..4 {
                self.op_read("sync", Some(ctx.as_str()), None, None);
                if let Some(e) = self.events.last() {
                    if e["e"] == "read" && e["tail"] == json!(false) && e["status"] == json!(200) {
                        hist = e["res"].as_array().map(|a| a.len()).unwrap_or(0) as u64;
                        hist_max = e["res"]
                            .as_array()
                            .and_then(|a| a.iter().filter_map(|f| f["id"].as_str()).max().map(String::from))
                            .unwrap_or_default();
                        break;
                    }
                }
            }
        }
        let lim: u64 = if kind >= 8 {
            if self.rng.gen_bool(0.5) {
                self.rng.gen_range(1..5)
            } else {
                // the context's history as a plain read sees it right now, plus one or two of the frames appended below
                hist + self.rng.gen_range(1..3)
            }
        } else {
            0
        };
        // resume after an id: the newest frame this store has appended (what a follower that saw everything holds), or any
        // id seen so far - whatever the store holds above it in the context is history to replay
        let last: Option<String> = if hist_route && self.rng.gen_bool(0.6) {
            if self.rng.gen_bool(0.5) && self.last_appended.is_some() {
                self.last_appended.clone()
            } else if !self.known_ids.is_empty() {
                Some(self.known_ids[self.rng.gen_range(0..self.known_ids.len())].clone())
            } else {
                None
            }
        } else {
            None
        };
        let topic = ["tA", "tAB", "tB"][self.rng.gen_range(0..3)];
        let topic_s = self.fam.topics.get(topic).cloned().unwrap();
        let target = if head {
            // (the system context is what the route assumes when no context is named)
            if ctx == Self::zero() && self.rng.gen_bool(0.5) {
                format!("/head/{topic_s}?follow=true")
            } else {
                format!("/head/{topic_s}?follow=true&context={ctx}")
            }
        } else if lim > 0 {
            // history + live with a heartbeat and a limit: pulses are not counted, the stream ends after `lim`
            format!("/?follow=3&limit={lim}&context-id={ctx}")
        } else if hist_route {
            match &last {
                Some(l) => format!("/?follow=true&context-id={ctx}&last-id={l}"),
                None => format!("/?follow=true&context-id={ctx}"),
            }
        } else {
            format!("/?follow=true&tail=true&context-id={ctx}")
        };
        let mut open = json!({"op": "follow_open", "target": target});
        if self.cli {
            let d = self.dir.to_string_lossy().to_string();
            open["cli_args"] = if lim > 0 {
                json!(["cat", d, "--pulse", "3", "--limit", lim.to_string(), "--context", ctx])
            } else if let Some(l) = &last {
                json!(["cat", d, "--follow", "-c", ctx, "--last-id", l])
            } else {
                json!(["cat", d, "--follow", "-c", ctx])
            };
        }
        let r = self.call(open);
        if Self::failed(&r) || r["status"] != json!(0) {
            return;
        }
        // (`follow_open` returns once the response head is there, i.e. the subscription exists.) With a heartbeat,
        // let some pulses pass before the live frames - this only widens what is exercised, nothing is concluded from it
        if lim > 0 {
            std::thread::sleep(std::time::Duration::from_millis(30));
        }
        let before = self.events.len();
        let forever = json!({"k": "forever", "n": 0});
        let eph = json!({"k": "eph", "n": 0});
        for c in pool.iter().take(3) {
            let t = if self.rng.gen_bool(0.7) { topic } else { "tABC" };
            // (an ephemeral frame broadcast while a history scan is running is known finding C03-ephemeral-dropped:
            // ephemeral frames only where no history is replayed)
            let ttl = if lim == 0 && !hist_route && self.rng.gen_bool(0.3) { &eph } else { &forever };
            self.op_append(c, t, ttl, "none", "none");
        }
        self.op_append(&ctx, topic, &forever, "m1", "b1");
        if lim > 0 {
            self.op_append(&ctx, topic, &forever, "none", "none");
        }
        let appended: Vec<Value> = self.events[before..]
            .iter()
            .filter(|e| e["e"] == "append" && e["ok"] == json!(true))
            .map(|e| e["f"].clone())
            .collect();
        // what has to arrive: the frames appended into the stream's scope; with a limit, that many data frames
        let in_scope: Vec<&Value> = appended
            .iter()
            .filter(|f| f["ctx"] == idref(&ctx) && (!head || f["topic"] == json!(topic)))
            // (through the command line an early append may be history, and history at or below the start position is not replayed)
            .filter(|f| match (&last, self.cli) {
                (Some(l), true) => f["id"].as_str().and_then(|i| i.strip_prefix("ID:")).map(|i| i > l.as_str()).unwrap_or(true),
                _ => true,
            })
            .collect();
        let (want_ids, want_count): (Vec<String>, u64) = if lim > 0 {
            (vec![], lim.min(hist + in_scope.len() as u64))
        } else {
            (in_scope.iter().filter_map(|f| f["id"].as_str().and_then(|s| s.strip_prefix("ID:")).map(String::from)).collect(), 0)
        };
        // (a history that holds an id above the ones just appended is known finding C03-future-dated-history-drops-live:
        // the frames will not come, there is no point in waiting the long time that otherwise guards against a slow machine)
        let future = !hist_max.is_empty()
            && appended.iter().any(|f| f["ctx"] == idref(&ctx) && f["id"].as_str().map(|i| i < hist_max.as_str()).unwrap_or(false));
        let r = self.call(json!({"op": "follow_collect", "wait_ms": 150, "want_ids": want_ids, "want_count": want_count,
            "cap_ms": if future { 500 } else { 10_000 }}));
        if Self::failed(&r) {
            return;
        }
        let frames: Vec<Value> = r["frames"].as_array().cloned().unwrap_or_default();
        let res: Vec<Value> = frames
            .iter()
            .filter(|f| f["topic"] != "xs.threshold" && f["topic"] != "xs.pulse")
            .map(|f| self.abs_frame(f))
            .collect();
        let route = if head { "head" } else if lim > 0 { "catlim" } else if hist_route { "cathist" } else { "cat" };
        if let Some(l) = &last {
            self.note_id(l);
        }
        self.events.push(json!({"e": "followprobe", "route": route, "topic": topic, "lim": lim,
            "last": last.as_deref().map(idref).unwrap_or(json!(-2)), "via": self.via(),
            "ctx": idref(&ctx), "res": res, "appended": appended, "status": r["status"]}));
    }

    pub fn random_probes(&mut self, n: usize) {
        if self.rng.gen_range(0..4) == 0 {
            self.op_cas_probe();
        }
        if self.rng.gen_range(0..40) == 0 {
            self.op_cas_hard();
        }
        if self.http && self.rng.gen_range(0..8) == 0 {
            self.op_follow_probe();
        }
        if self.http && self.rng.gen_range(0..16) == 0 {
            self.op_slow_append();
        }
        if self.http && self.rng.gen_range(0..3) == 0 {
            let c = crate::http::BAD_CLASSES[self.rng.gen_range(0..crate::http::BAD_CLASSES.len())];
            self.op_bad(c);
        }
        for _ in 0..n {
            match self.rng.gen_range(0..10) {
                0..=4 => {
                    let pool = self.ctx_pool();
                    let ctx = pool[self.rng.gen_range(0..pool.len())].clone();
                    let last = if self.rng.gen_bool(0.5) || (self.known_ids.is_empty() && self.eph_ids.is_empty()) {
                        None
                    } else {
                        let all: Vec<&String> = self.known_ids.iter().chain(self.eph_ids.iter()).collect();
                        Some(all[self.rng.gen_range(0..all.len())].clone())
                    };
                    let lim = match self.rng.gen_range(0..6) {
                        0 => Some(0),
                        1 => Some(1),
                        2 => Some(2),
                        3 => Some(3),
                        _ => None,
                    };
                    let path = if self.rng.gen_bool(0.5) { "sync" } else { "stream" };
                    self.op_read(path, ctx.as_deref(), last.as_deref(), lim);
                }
                5..=6 => {
                    let all: Vec<String> =
                        self.known_ids.iter().chain(self.eph_ids.iter()).cloned().collect();
                    if !all.is_empty() {
                        let id = all[self.rng.gen_range(0..all.len())].clone();
                        self.op_get(&id);
                    }
                }
                _ => {
                    let toks: Vec<String> = self.topics_used.iter().cloned().collect();
                    if !toks.is_empty() {
                        let t = toks[self.rng.gen_range(0..toks.len())].clone();
                        let pool = self.ctx_pool();
                        if let Some(c) = pool[self.rng.gen_range(1..pool.len())].clone() {
                            self.op_head(&t, &c);
                        }
                    }
                }
            }
        }
    }

    pub fn full_probe(&mut self) {
        let pool = self.ctx_pool();
        for path in ["sync", "stream"] {
            for c in &pool {
                self.op_read(path, c.as_deref(), None, None);
            }
        }
        for id in self.known_ids.clone().iter().chain(self.eph_ids.clone().iter()) {
            self.op_get(id);
        }
        // C10: the content of every visible frame is retrievable
        let r = self.call(json!({"op": "read", "path": "sync", "ctx": null, "last": null, "limit": null}));
        if Self::failed(&r) {
            return;
        }
        let frames: Vec<Value> = r["frames"].as_array().cloned().unwrap_or_default();
        let res: Vec<Value> = frames.iter().map(|f| self.abs_frame(f)).collect();
        self.events.push(json!({"e": "read", "path": "sync", "ctx": -1, "last": -2, "lim": -1, "res": res,
            "status": r["status"].as_i64().unwrap_or(0), "tail": false, "via": self.via(), "same": true}));
        let mut hashes: Vec<String> = frames.iter().filter_map(|f| f["hash"].as_str().map(|x| x.to_string())).collect();
        hashes.sort();
        hashes.dedup();
        for h in hashes {
            let r = self.call(json!({"op": "cas_read", "hash": h}));
            if Self::failed(&r) {
                return;
            }
            self.events.push(json!({"e": "cas", "what": "visible hash has content", "ok": r["content"].is_string()}));
        }
        let mut toks: Vec<String> = self.topics_used.iter().cloned().collect();
        for extra in ["tA", "tAB", "tABC", "tE"] {
            if !toks.contains(&extra.to_string()) {
                toks.push(extra.to_string());
            }
        }
        for t in toks {
            if t.starts_with("tNUL") {
                continue;
            }
            for c in pool.iter().flatten() {
                self.op_head(&t, c);
            }
        }
    }

    // ------------------------------------------------------------------ abstract ops

    pub fn exec_abstract(&mut self, op: &Value) {
        if self.dead {
            return;
        }
        let kind = op["op"].as_str().unwrap_or("");
        match kind {
            "append" => {
                let ctx = self.resolve(op["ctx"].as_i64().unwrap()).unwrap_or(Self::zero());
                let meta = op["meta"].as_str().map(|s| s.to_string()).unwrap_or_else(|| {
                    ["none", "m1", "m2", "m3"][self.rng.gen_range(0..4)].to_string()
                });
                let content = op["hash"].as_str().map(|s| s.to_string()).unwrap_or_else(|| {
                    ["none", "none", "b1", "b2", "b3"][self.rng.gen_range(0..5)].to_string()
                });
                self.op_append(&ctx, op["topic"].as_str().unwrap(), &op["ttl"], &meta, &content);
            }
            "remove" => {
                let id = self.resolve(op["id"].as_i64().unwrap()).unwrap();
                self.op_remove(&id);
            }
            "tick" => self.op_tick(op["n"].as_u64().unwrap_or(1)),
            "gc" => self.op_gc(50),
            "read" => {
                let ctx = self.resolve(op["ctx"].as_i64().unwrap());
                let last = self.resolve(op["last"].as_i64().unwrap());
                let lim = op["lim"].as_i64().unwrap();
                self.op_read(
                    op["path"].as_str().unwrap_or("sync"),
                    ctx.as_deref(),
                    last.as_deref(),
                    if lim < 0 { None } else { Some(lim as u64) },
                );
            }
            "get" => {
                let id = self.resolve(op["id"].as_i64().unwrap()).unwrap();
                self.op_get(&id);
            }
            "slowread" => {
                let ctx = self.resolve(op["ctx"].as_i64().unwrap());
                let last = self.resolve(op["last"].as_i64().unwrap());
                let lim = op["lim"].as_i64().unwrap();
                self.op_read_slow(ctx.as_deref(), last.as_deref(), if lim < 0 { None } else { Some(lim as u64) },
                    op["k"].as_u64().unwrap_or(0), op["n"].as_u64().unwrap_or(1));
            }
            "head" => {
                let ctx = self.resolve(op["ctx"].as_i64().unwrap()).unwrap();
                self.op_head(op["topic"].as_str().unwrap(), &ctx);
            }
            "drain" => self.op_drain(),
            "reopen" => self.op_reopen(),
            "import" => {
                let id = self.resolve(op["id"].as_i64().unwrap()).unwrap();
                let ctx = self.resolve(op["ctx"].as_i64().unwrap()).unwrap();
                let meta = ["none", "m1", "m2"][self.rng.gen_range(0..3)];
                self.op_import(&id, &ctx, op["topic"].as_str().unwrap(), &op["ttl"], meta);
            }
            "reimport" => {
                // the identical frame again (as the store returns it now): must change nothing
                let id = self.resolve(op["id"].as_i64().unwrap()).unwrap();
                // (a frame the store has dropped meanwhile - removed, expired and collected, evicted - comes back as it was
                // last seen: under its old id, at its old place, with its old TTL)
                let r = self.call(json!({"op": "get", "id": id, "direct": true}));
                if !Self::failed(&r) {
                    let f = if r["frame"].is_null() { self.frame_by_id.get(&id).cloned() } else { Some(r["frame"].clone()) };
                    if let Some(f) = f {
                        self.op_import_concrete(&f, None);
                    }
                }
            }
            "xfer" => self.op_xfer(),
            other => {
                self.events.push(json!({"e": "skipped_op", "op": other}));
            }
        }
    }

    /// finish: final observation, abstract the ids, return the events
    pub fn finish(mut self) -> Vec<Value> {
        if !self.dead {
            self.full_probe();
        }
        if !self.dead {
            self.op_drain();
        }
        if !self.dead {
            self.full_probe();
        }
        if let Some(w) = self.w.take() {
            w.stop();
        }
        // post-hoc id abstraction
        let mut map: HashMap<String, i64> = HashMap::new();
        let mut per_t: BTreeMap<u64, Vec<(u128, String)>> = BTreeMap::new();
        for s in &self.seen {
            let Ok(id) = Scru128Id::from_str(s) else { continue };
            if id.to_u128() == 0 {
                map.insert(s.clone(), 0);
                continue;
            }
            let ts = id.timestamp();
            if ts < BASE_MS {
                map.insert(s.clone(), -7);
                continue;
            }
            let t = (ts - BASE_MS) / UNIT_MS;
            let o = (ts - BASE_MS) % UNIT_MS;
            if let (0, Some(k)) = (o, foreign_k(&id).filter(|k| *k < TRACE_W / 2)) {
                map.insert(s.clone(), t as i64 * TRACE_W + k);
            } else {
                per_t.entry(t).or_default().push((id.to_u128(), s.clone()));
            }
        }
        for (t, mut v) in per_t {
            v.sort();
            for (rank, (_, s)) in v.into_iter().enumerate() {
                let k = TRACE_W / 2 + rank as i64;
                map.insert(s, if k < TRACE_W { t as i64 * TRACE_W + k } else { -8 });
            }
        }
        fn walk(v: &mut Value, map: &HashMap<String, i64>) {
            match v {
                Value::String(s) if s.starts_with("ID:") => {
                    let n = map.get(&s[3..]).copied().unwrap_or(-6);
                    *v = json!(n);
                }
                Value::Array(a) => a.iter_mut().for_each(|x| walk(x, map)),
                Value::Object(o) => o.values_mut().for_each(|x| walk(x, map)),
                _ => {}
            }
        }
        let mut evs = std::mem::take(&mut self.events);
        if map.values().any(|v| *v == -8) {
            // more ids inside one clock unit than the trace encoding has room for: not judged
            evs = vec![json!({"e": "skipped_overflow"})];
        }
        for e in evs.iter_mut() {
            walk(e, &map);
        }
        let _ = std::fs::remove_dir_all(&self.root);
        evs
    }
}

/// one behaviour: {"b": n, "W": 8, "seed": s, "ops": [...]}
/// C02 over HTTP with the real clock and the real id generator (the virtual clock of the other runs hands out the ids
/// itself, inside `Store::append`, and so cannot see who else might stamp a frame): an upload that is still open while
/// another client's append completes and is read; the slow frame is appended when its body is complete and must sort
/// after the quick one - for a poller resuming from the quick frame too. Ids are compared as they are, no abstraction.
pub fn realtime_order_probe(root: &Path, seed: u64) -> Vec<Value> {
    let dir = root.join("rt");
    let _ = std::fs::create_dir_all(&dir);
    let Some((mut w, _)) = Worker::spawn(&dir, None, false, true) else { return vec![] };
    let mut rng = StdRng::seed_from_u64(seed ^ 0x5eed);
    let body: Vec<u8> = (0..rng.gen_range(2..20000)).map(|i| (i % 251) as u8).collect();
    let cut = body.len() / 2;
    let mut out = vec![];
    let r = w.call(json!({"op": "slow_open", "target": "/slow", "first": base64::prelude::BASE64_STANDARD.encode(&body[..cut])}));
    if r["status"] == json!(0) {
        std::thread::sleep(std::time::Duration::from_millis(rng.gen_range(5..60)));
        let q = w.call(json!({"op": "append", "ctx": "0000000000000000000000000", "topic": "quick", "ttl": "forever",
            "meta": null, "content": null}));
        let seen = w.call(json!({"op": "read", "path": "sync", "ctx": null, "last": null, "limit": null, "tail": false}));
        let s = w.call(json!({"op": "slow_finish", "rest": base64::prelude::BASE64_STANDARD.encode(&body[cut..])}));
        if q["ok"] == json!(true) && s["ok"] == json!(true) && seen["status"] == json!(200) {
            let (qid, sid) = (q["frame"]["id"].as_str().unwrap_or("").to_string(), s["frame"]["id"].as_str().unwrap_or("").to_string());
            let poll = w.call(json!({"op": "read", "path": "sync", "ctx": null, "last": qid, "limit": null, "tail": false}));
            let polled: Vec<String> = poll["frames"].as_array().map(|a| a.iter().filter_map(|f| f["id"].as_str().map(String::from)).collect()).unwrap_or_default();
            let saw_quick = seen["frames"].as_array().map(|a| a.iter().any(|f| f["id"] == json!(qid))).unwrap_or(false);
            out.push(json!({"e": "order", "what": "a frame appended after another was read has the larger id and reaches a poller resuming from it",
                "ok": !saw_quick || (sid > qid && polled.contains(&sid)), "quick": qid, "slow": sid}));
        }
    }
    w.stop();
    let _ = std::fs::remove_dir_all(&dir);
    out
}

pub fn run_behaviour(root: &Path, beh: &Value, gate_gc: bool, probes: usize, http: bool) -> Vec<Value> {
    let b = beh["b"].as_i64().unwrap_or(0);
    let seed = beh["seed"].as_u64().unwrap_or(b as u64);
    let wb = beh["W"].as_i64().unwrap_or(8);
    let mut run = Run::new(root, seed, wb, gate_gc, probes, http);
    for op in beh["ops"].as_array().cloned().unwrap_or_default() {
        run.exec_abstract(&op);
        let k = op["op"].as_str().unwrap_or("");
        if k != "gc" && probes > 0 {
            let n = run.rng.gen_range(0..=probes);
            run.random_probes(n);
            if run.rng.gen_range(0..4) == 0 {
                run.op_dump();
            }
        }
    }
    let rt = http && !run.cli && run.rng.gen_range(0..8) == 0;
    let mut evs = vec![json!({"e": "reset", "b": b})];
    evs.extend(run.finish());
    if rt {
        evs.extend(realtime_order_probe(root, seed));
    }
    evs
}

//! One store incarnation: executes concrete operations read from stdin (one JSON object per
//! line) against the real `xs::store::Store` and answers each with one JSON line on stdout.
//! A "reopen" in a behaviour is: this process exits, the parent starts a new one on the same
//! directory.
use std::io::{BufRead, Write};
use std::path::PathBuf;
use std::str::FromStr;
use std::time::Duration;

use base64::Engine;
use scru128::Scru128Id;
use serde_json::{json, Value};
use xs::store::{FollowOption, Frame, ReadOptions, Store, TTL};
use xs::verif::{self, ActorState};

fn opt_id(v: &Value) -> Option<Scru128Id> {
    v.as_str().map(|s| Scru128Id::from_str(s).expect("id"))
}

pub fn frame_json(f: &Frame) -> Value {
    serde_json::to_value(f).unwrap()
}

fn gc_parked(wait: Duration) -> bool {
    let deadline = std::time::Instant::now() + wait;
    loop {
        if let Some(ActorState::Parked(_)) = verif::state_of("gc") {
            return true;
        }
        if std::time::Instant::now() >= deadline {
            return false;
        }
        std::thread::sleep(Duration::from_micros(200));
    }
}

/// an open follow stream: bytes arrive from a reader thread (None: end of stream)
struct FollowSrc {
    rx: std::sync::mpsc::Receiver<Option<Vec<u8>>>,
    pre: Vec<u8>,
    child: Option<std::process::Child>,
    conn: Option<std::os::unix::net::UnixStream>,
}

pub fn run(dir: PathBuf, clock: Option<u64>, gate_gc: bool, http: bool, serve: bool) {
    let rt = tokio::runtime::Builder::new_multi_thread()
        .worker_threads(4)
        .enable_all()
        .build()
        .unwrap();
    verif::set_clock(clock);
    if gate_gc {
        verif::set_gates(&["gc"]);
    }
    let store = Store::new(dir.clone());
    let eph_seen: std::sync::Arc<std::sync::Mutex<Vec<Value>>> = Default::default();
    let sock = dir.join("sock");
    let mut ready = json!({"ready": true});
    let mut tcp_addr: Option<String> = None;
    if http {
        // the real front end: api::serve on the store's unix socket (appends xs.start first)
        let engine = xs::nu::Engine::new().expect("engine");
        let s2 = store.clone();
        // With the command line tool as the client, half of the servers also listen on TCP (`xs serve --expose :PORT`,
        // src/listener.rs) and the tool is given that address: the port is this process's own (derived from the pid) and
        // is tried first, so that a port somebody else holds means "no TCP this time", never a server that does not start
        let want_tcp = std::env::var("XSV_CLI").map(|s| !s.is_empty()).unwrap_or(false) && std::process::id() % 2 == 0;
        let port = 20000 + (std::process::id() % 30000) as u16;
        let expose = if want_tcp && std::net::TcpListener::bind(("127.0.0.1", port)).is_ok() { Some(format!(":{port}")) } else { None };
        tcp_addr = expose.clone();
        rt.spawn(async move {
            let _ = xs::api::serve(s2, engine, expose).await;
        });
        let deadline = std::time::Instant::now() + Duration::from_secs(10);
        while std::os::unix::net::UnixStream::connect(&sock).is_err() {
            if std::time::Instant::now() > deadline {
                println!("{}", json!({"ready": false, "err": "socket did not come up"}));
                std::process::exit(3);
            }
            std::thread::sleep(Duration::from_millis(2));
        }
        ready["start"] = json!(store.head("xs.start", xs::store::ZERO_CONTEXT).map(|f| frame_json(&f)));
    }
    if serve {
        // the three processor serve loops, wired as /repo/src/main.rs does (one engine, cloned)
        ready["last"] = json!(store.read_sync(None, None, None).last().map(|f| f.id.to_string()));
        let engine = xs::nu::Engine::new().expect("engine");
        // the hook log tells when each serve loop's start-up scan has sent its threshold: a frame
        // appended after that is live for the loop (it is behind the threshold in its channel)
        verif::set_log(true);
        {
            let (store, engine) = (store.clone(), engine.clone());
            rt.spawn(async move {
                let _ = xs::generators::serve(store, engine).await;
            });
        }
        {
            let (store, engine) = (store.clone(), engine.clone());
            rt.spawn(async move {
                let _ = xs::handlers::serve(store, engine).await;
            });
        }
        {
            let (store, engine) = (store.clone(), engine.clone());
            rt.spawn(async move {
                let _ = xs::commands::serve(store, engine).await;
            });
        }
    }
    if serve {
        let deadline = std::time::Instant::now() + Duration::from_secs(20);
        let mut loops: Vec<String> = vec![];
        let mut done: Vec<String> = vec![];
        loop {
            for ev in verif::take_log() {
                let actor = ev["actor"].as_str().unwrap_or("").to_string();
                match ev["ev"].as_str().unwrap_or("") {
                    // the serve loops read all contexts; handler instances always name theirs
                    "read.subscribed" if ev["follow"] == json!(true) && ev["ctx"].is_null() => loops.push(actor),
                    "hist.threshold" => done.push(actor.trim_end_matches(".hist").to_string()),
                    _ => {}
                }
            }
            if loops.len() >= 3 && loops.iter().all(|r| done.contains(r)) {
                break;
            }
            if std::time::Instant::now() > deadline {
                println!("{}", json!({"ready": false, "err": "serve loops did not reach their threshold"}));
                std::process::exit(3);
            }
            std::thread::sleep(Duration::from_micros(300));
        }
        verif::set_log(false);
        let _ = verif::take_log();
        // ephemeral frames are never stored: what the processors emit with that TTL is seen only by followers. One
        // follower of all contexts, subscribed before the first client action, keeps them for the runner (`eph_seen`).
        let (store2, seen) = (store.clone(), eph_seen.clone());
        let (tx_ready, rx_ready) = std::sync::mpsc::channel::<()>();
        rt.spawn(async move {
            let mut rx = store2.read(ReadOptions::builder().follow(FollowOption::On).tail(true).build()).await;
            let _ = tx_ready.send(());
            while let Some(f) = rx.recv().await {
                if f.ttl == Some(xs::store::TTL::Ephemeral) && f.topic != "xs.threshold" && f.topic != "xs.pulse" {
                    seen.lock().unwrap().push(frame_json(&f));
                }
            }
        });
        let _ = rx_ready.recv_timeout(Duration::from_secs(5));
    }
    let stdin = std::io::stdin();
    let stdout = std::io::stdout();
    let mut out = stdout.lock();
    println!("{}", ready);
    let mut nth: u64 = 0;
    let mut follow_src: Option<FollowSrc> = None;
    let mut slow_conn: Option<std::os::unix::net::UnixStream> = None;
    let mut nu_front = if std::env::var("XSV_NU").is_ok() { Some(crate::nu::NuFront::new(store.clone())) } else { None };
    let cli_bin: Option<String> = std::env::var("XSV_CLI").ok().filter(|s| !s.is_empty());
    for line in stdin.lock().lines() {
        let line = line.unwrap();
        if line.trim().is_empty() {
            continue;
        }
        let req: Value = serde_json::from_str(&line).expect("request json");
        let op = req["op"].as_str().unwrap_or("");
        // a panic inside the code under test is an observation, not a harness failure
        nth += 1;
        if op == "eph_seen" {
            let v: Vec<Value> = std::mem::take(&mut *eph_seen.lock().unwrap());
            writeln!(out, "{}", json!({"frames": v})).unwrap();
            out.flush().unwrap();
            continue;
        }
        if http && op == "slow_open" {
            let first = base64::prelude::BASE64_STANDARD.decode(req["first"].as_str().unwrap_or("")).unwrap_or_default();
            slow_conn = crate::http::slow_open(&sock, req["target"].as_str().unwrap_or("/"), &first);
            writeln!(out, "{}", json!({"status": if slow_conn.is_some() { 0 } else { -1 }})).unwrap();
            out.flush().unwrap();
            continue;
        }
        if http && op == "slow_finish" {
            let rest = base64::prelude::BASE64_STANDARD.decode(req["rest"].as_str().unwrap_or("")).unwrap_or_default();
            let resp = match slow_conn.take() {
                Some(c) => {
                    let r = crate::http::slow_finish(c, &rest);
                    if r.status == 200 {
                        match serde_json::from_slice::<Value>(&r.body) {
                            Ok(f) => json!({"ok": true, "frame": f, "status": 200}),
                            Err(_) => json!({"ok": false, "err": "unparsable body", "status": -3}),
                        }
                    } else {
                        json!({"ok": false, "err": String::from_utf8_lossy(&r.body), "status": r.status})
                    }
                }
                None => json!({"ok": false, "err": "no open upload", "status": -1}),
            };
            writeln!(out, "{}", resp).unwrap();
            out.flush().unwrap();
            continue;
        }
        if http && op == "follow_open" {
            // a streaming request that stays open while the parent goes on appending: raw HTTP, or - `cli_args`
            // given - the real `xs` binary with its standard output piped
            use std::io::{Read as _, Write as _};
            let mut resp = json!({"status": -1});
            let (tx, rx) = std::sync::mpsc::channel::<Option<Vec<u8>>>();
            let pump = |mut r: Box<dyn std::io::Read + Send>, tx: std::sync::mpsc::Sender<Option<Vec<u8>>>| {
                std::thread::spawn(move || {
                    let mut chunk = [0u8; 65536];
                    loop {
                        match r.read(&mut chunk) {
                            Ok(0) | Err(_) => {
                                let _ = tx.send(None);
                                break;
                            }
                            Ok(n) => {
                                if tx.send(Some(chunk[..n].to_vec())).is_err() {
                                    break;
                                }
                            }
                        }
                    }
                });
            };
            if let (Some(bin), Some(args)) = (cli_bin.as_ref(), req["cli_args"].as_array()) {
                let args: Vec<String> = args.iter().filter_map(|a| a.as_str().map(String::from)).collect();
                if let Ok(mut child) = std::process::Command::new(bin)
                    .args(&args)
                    .stdin(std::process::Stdio::null())
                    .stdout(std::process::Stdio::piped())
                    .stderr(std::process::Stdio::piped())
                    .spawn()
                {
                    pump(Box::new(child.stdout.take().unwrap()), tx);
                    follow_src = Some(FollowSrc { rx, pre: vec![], child: Some(child), conn: None });
                    resp = json!({"status": 0});
                }
            } else if let Ok(mut c) = std::os::unix::net::UnixStream::connect(&sock) {
                let target = req["target"].as_str().unwrap_or("/");
                let _ = c.write_all(format!("GET {target} HTTP/1.1\r\nHost: localhost\r\n\r\n").as_bytes());
                if let Ok(c2) = c.try_clone() {
                    pump(Box::new(c2), tx);
                    // The response head is written after `Store::read` returned, i.e. after the subscription exists:
                    // wait for it (not for some milliseconds), so that what the parent appends next is live traffic.
                    let cap = std::time::Instant::now() + Duration::from_secs(10);
                    let mut pre = vec![];
                    while !pre.windows(4).any(|w| w == b"\r\n\r\n") && std::time::Instant::now() < cap {
                        match rx.recv_timeout(Duration::from_millis(200)) {
                            Ok(Some(ch)) => pre.extend_from_slice(&ch),
                            Ok(None) => break,
                            Err(_) => {}
                        }
                    }
                    follow_src = Some(FollowSrc { rx, pre, child: None, conn: Some(c) });
                    resp = json!({"status": 0});
                }
            }
            writeln!(out, "{}", resp).unwrap();
            out.flush().unwrap();
            continue;
        }
        if http && op == "follow_collect" {
            let mut buf = vec![];
            let mut status: i64 = -1;
            let mut over_http = true;
            if let Some(mut src) = follow_src.take() {
                buf = std::mem::take(&mut src.pre);
                over_http = src.conn.is_some();
                let wait = Duration::from_millis(req["wait_ms"].as_u64().unwrap_or(150));
                // What the runner expects to arrive (ids of the frames it appended into the stream's scope, number of
                // data frames of a limited stream): absence is concluded only after `cap_ms`, never from a short pause,
                // so a loaded machine cannot turn into a "missing frame". Once everything expected is there (or
                // nothing was expected) the stream is read for one more `wait` - a heartbeat never lets it go idle -
                // to see what else comes.
                let want_ids: Vec<String> = req["want_ids"]
                    .as_array()
                    .map(|a| a.iter().filter_map(|v| v.as_str().map(|s| format!("\"id\":\"{s}\""))).collect())
                    .unwrap_or_default();
                let want_count = req["want_count"].as_u64().unwrap_or(0) as usize;
                let cap = std::time::Instant::now() + Duration::from_millis(req["cap_ms"].as_u64().unwrap_or(10_000));
                let mut grace: Option<std::time::Instant> = None;
                let satisfied = |buf: &[u8]| {
                    let text = String::from_utf8_lossy(buf);
                    let body = if over_http { text.find("\r\n\r\n").map(|p| &text[p + 4..]).unwrap_or("") } else { &text[..] };
                    let data = body
                        .lines()
                        .filter(|l| {
                            let l = l.trim();
                            l.starts_with('{') && l.ends_with('}') && !l.contains("\"xs.pulse\"") && !l.contains("\"xs.threshold\"")
                        })
                        .count();
                    data >= want_count && want_ids.iter().all(|w| body.contains(w.as_str()))
                };
                loop {
                    let mut idle = false;
                    match src.rx.recv_timeout(wait) {
                        Ok(Some(ch)) => buf.extend_from_slice(&ch),
                        Ok(None) => break,
                        Err(std::sync::mpsc::RecvTimeoutError::Timeout) => idle = true,
                        Err(_) => break,
                    }
                    let now = std::time::Instant::now();
                    if grace.is_none() && satisfied(&buf) {
                        grace = Some(now + wait);
                    }
                    match grace {
                        Some(g) if idle || now > g => break,
                        None if now > cap => break,
                        _ => {}
                    }
                    if buf.len() > 4_000_000 {
                        break;
                    }
                }
                if let Some(c) = src.conn.take() {
                    let _ = c.shutdown(std::net::Shutdown::Both);
                }
                if let Some(mut child) = src.child.take() {
                    // still running (a follower never ends by itself), ended by its limit, or failed
                    status = match child.try_wait() {
                        Ok(Some(st)) if !st.success() => {
                            use std::io::Read as _;
                            let mut e = String::new();
                            if let Some(mut se) = child.stderr.take() {
                                let _ = se.read_to_string(&mut e);
                            }
                            crate::cli::status_of(&crate::cli::Out { code: st.code().unwrap_or(-101), stdout: vec![], stderr: e })
                        }
                        _ => 200,
                    };
                    let _ = child.kill();
                    let _ = child.wait();
                }
            }
            let text = String::from_utf8_lossy(&buf).to_string();
            let body = if over_http {
                status = text.split(' ').nth(1).and_then(|c| c.parse::<i64>().ok()).unwrap_or(-1);
                text.find("\r\n\r\n").map(|p| text[p + 4..].to_string()).unwrap_or_default()
            } else {
                text
            };
            let mut frames = vec![];
            for l in body.lines() {
                let l = l.trim();
                if l.starts_with('{') {
                    if let Ok(v) = serde_json::from_str::<Value>(l) {
                        frames.push(v);
                    }
                }
            }
            writeln!(out, "{}", json!({"status": status, "frames": frames})).unwrap();
            out.flush().unwrap();
            continue;
        }
        let res = std::panic::catch_unwind(std::panic::AssertUnwindSafe(|| {
            if let Some(nf) = nu_front.as_mut() {
                if !req["direct"].as_bool().unwrap_or(false) {
                    if let Some(v) = nf.exec(op, &req, nth) {
                        return v;
                    }
                }
            }
            // `direct`: the same operation on the Store API, past the front end (differential check of C13)
            if http && !req["direct"].as_bool().unwrap_or(false) {
                if op == "bad" {
                    let before = store.verif_dump();
                    let class = req["class"].as_str().unwrap_or("");
                    let (r, expect) = crate::http::bad(&sock, class);
                    // the server must still answer the next request
                    let next = crate::http::req(&sock, "GET", "/version", &[], &[]);
                    let after = store.verif_dump();
                    return json!({"status": r.status, "expect": expect, "same": before == after,
                                  "next_status": next.status, "body": String::from_utf8_lossy(&r.body)});
                }
                if let Some(bin) = cli_bin.as_ref() {
                    if let Some(v) = crate::cli::exec(bin, &dir, tcp_addr.as_deref(), op, &req, nth) {
                        return v;
                    }
                }
                if let Some(v) = crate::http::exec(&sock, op, &req, nth) {
                    return v;
                }
            }
            exec(&rt, &store, op, &req, gate_gc)
        }));
        let resp = match res {
            Ok(v) => v,
            Err(e) => {
                let msg = e
                    .downcast_ref::<String>()
                    .cloned()
                    .or_else(|| e.downcast_ref::<&str>().map(|s| s.to_string()))
                    .unwrap_or_default();
                json!({"panic": msg})
            }
        };
        writeln!(out, "{}", resp).unwrap();
        out.flush().unwrap();
        if op == "exit" {
            break;
        }
    }
    std::process::exit(0);
}

fn exec(
    rt: &tokio::runtime::Runtime,
    store: &Store,
    op: &str,
    req: &Value,
    gate_gc: bool,
) -> Value {
    match op {
        "clock" => {
            verif::set_clock(req["ms"].as_u64());
            json!({})
        }
        "append" => {
            let ctx = opt_id(&req["ctx"]).unwrap();
            let ttl = req["ttl"].as_str().map(|s| xs::store::parse_ttl(s).expect("ttl"));
            let hash = match req["content"].as_str() {
                Some(b64) => {
                    let bytes = base64::prelude::BASE64_STANDARD.decode(b64).unwrap();
                    Some(store.cas_insert_sync(bytes).expect("cas_insert"))
                }
                None => None,
            };
            let meta = if req["meta"].is_null() {
                None
            } else {
                Some(req["meta"].clone())
            };
            let frame = Frame::builder(req["topic"].as_str().unwrap(), ctx)
                .maybe_hash(hash)
                .maybe_meta(meta)
                .maybe_ttl(ttl)
                .build();
            match store.append(frame) {
                Ok(f) => json!({"ok": true, "frame": frame_json(&f)}),
                Err(e) => json!({"ok": false, "err": e.to_string()}),
            }
        }
        "cas_put" => {
            let bytes = base64::prelude::BASE64_STANDARD
                .decode(req["content"].as_str().unwrap())
                .unwrap();
            let h = store.cas_insert_sync(bytes).expect("cas_insert");
            json!({"hash": h.to_string()})
        }
        "cas_fault" => {
            // C10 on an error path: a write that fails (the content store's scratch directory is unusable for a moment) and
            // is then repeated - whatever hash the successful call reports must read back
            let bytes = base64::prelude::BASE64_STANDARD.decode(req["content"].as_str().unwrap()).unwrap();
            let asynch = req["entry"].as_str() == Some("insert");
            let put = |b: &[u8]| -> Result<ssri::Integrity, String> {
                if asynch { rt.block_on(store.cas_insert(b)).map_err(|e| e.to_string()) } else { store.cas_insert_sync(b).map_err(|e| e.to_string()) }
            };
            let cache = store.path.join("cacache");
            let tmp = cache.join("tmp");
            let aside = cache.join("tmp.aside");
            let _ = std::fs::create_dir_all(&cache);
            let had = std::fs::rename(&tmp, &aside).is_ok();
            let _ = std::fs::write(&tmp, b"not a directory");
            let first = put(&bytes);
            let _ = std::fs::remove_file(&tmp);
            if had {
                let _ = std::fs::rename(&aside, &tmp);
            }
            let second = put(&bytes);
            let back = second.as_ref().ok().map(|h| store.cas_read_sync(h).ok());
            json!({"first_failed": first.is_err(), "second_ok": second.is_ok(),
                   "readable": back.clone().flatten().is_some(), "same": back.flatten().as_deref() == Some(&bytes[..]),
                   "err": second.err()})
        }
        "cas_race" => {
            // C10 under concurrency: several writers of the same (new, large) bytes through the entry points the processors
            // use; whenever one of them returns a hash, the content is retrievable at that moment
            let n = req["size"].as_u64().unwrap_or(4 << 20) as usize;
            let seed = req["seed"].as_u64().unwrap_or(1);
            let mut x = seed.wrapping_mul(0x9E3779B97F4A7C15) | 1;
            let payload: Vec<u8> = (0..n)
                .map(|_| {
                    x ^= x << 13;
                    x ^= x >> 7;
                    x ^= x << 17;
                    (x >> 24) as u8
                })
                .collect();
            let payload = std::sync::Arc::new(payload);
            let mut hs = vec![];
            for i in 0..req["writers"].as_u64().unwrap_or(3) {
                let (store, payload, rt) = (store.clone(), payload.clone(), rt.handle().clone());
                hs.push(std::thread::spawn(move || {
                    let r = if i % 2 == 0 {
                        store.cas_insert_sync(payload.as_slice()).map_err(|e| e.to_string())
                    } else {
                        rt.block_on(store.cas_insert(payload.as_slice())).map_err(|e| e.to_string())
                    };
                    match r {
                        Ok(h) => match store.cas_read_sync(&h) {
                            Ok(b) => (true, b == *payload, h.to_string()),
                            Err(_) => (false, false, h.to_string()),
                        },
                        Err(e) => (false, false, e),
                    }
                }));
            }
            let res: Vec<(bool, bool, String)> = hs.into_iter().map(|h| h.join().unwrap()).collect();
            json!({"readable": res.iter().all(|r| r.0), "same": res.iter().all(|r| r.1),
                   "one_hash": res.iter().all(|r| r.2 == res[0].2), "detail": res.iter().map(|r| r.2.clone()).collect::<Vec<_>>()})
        }
        "cas_read" => {
            let h = ssri::Integrity::from_str(req["hash"].as_str().unwrap()).unwrap();
            match store.cas_read_sync(&h) {
                Ok(b) => json!({"content": base64::prelude::BASE64_STANDARD.encode(b)}),
                Err(e) => json!({"err": e.to_string()}),
            }
        }
        "import" => {
            let frame: Frame = match serde_json::from_value(req["frame"].clone()) {
                Ok(f) => f,
                Err(e) => return json!({"ok": false, "err": format!("json: {e}")}),
            };
            match store.insert_frame(&frame) {
                Ok(()) => json!({"ok": true}),
                Err(e) => json!({"ok": false, "err": e.to_string()}),
            }
        }
        "remove" => {
            let id = opt_id(&req["id"]).unwrap();
            match store.remove(&id) {
                Ok(()) => json!({"ok": true}),
                Err(e) => json!({"ok": false, "err": e.to_string()}),
            }
        }
        "read" => {
            let ctx = opt_id(&req["ctx"]);
            let last = opt_id(&req["last"]);
            let limit = req["limit"].as_u64().map(|n| n as usize);
            let frames: Vec<Value> = if req["path"].as_str() == Some("stream") {
                let opts = ReadOptions::builder()
                    .follow(FollowOption::Off)
                    .tail(req["tail"].as_bool().unwrap_or(false))
                    .maybe_last_id(last)
                    .maybe_limit(limit)
                    .maybe_context_id(ctx)
                    .build();
                rt.block_on(async {
                    let mut rx = store.read(opts).await;
                    let mut v = vec![];
                    while let Some(f) = rx.recv().await {
                        v.push(frame_json(&f));
                    }
                    v
                })
            } else {
                store
                    .read_sync(last.as_ref(), limit, ctx)
                    .map(|f| frame_json(&f))
                    .collect()
            };
            json!({"frames": frames})
        }
        "read_slow" => {
            // a streaming read whose consumer stalls after k frames while the clock moves on
            let ctx = opt_id(&req["ctx"]);
            let last = opt_id(&req["last"]);
            let limit = req["limit"].as_u64().map(|n| n as usize);
            let k = req["k"].as_u64().unwrap_or(0) as usize;
            let advance = req["advance_ms"].as_u64().unwrap_or(0);
            verif::set_caps(None, Some(1));
            let opts = ReadOptions::builder()
                .follow(FollowOption::Off)
                .maybe_last_id(last)
                .maybe_limit(limit)
                .maybe_context_id(ctx)
                .build();
            let (frames, got_before) = rt.block_on(async {
                let mut rx = store.read(opts).await;
                let mut v = vec![];
                while v.len() < k {
                    match rx.recv().await {
                        Some(f) => v.push(frame_json(&f)),
                        None => break,
                    }
                }
                let got_before = v.len();
                // let the history thread run into the full channel, then move the clock
                tokio::time::sleep(Duration::from_millis(8)).await;
                verif::advance_clock(advance);
                while let Some(f) = rx.recv().await {
                    v.push(frame_json(&f));
                }
                (v, got_before)
            });
            verif::set_caps(None, None);
            json!({"frames": frames, "k": got_before})
        }
        "get" => {
            let id = opt_id(&req["id"]).unwrap();
            json!({"frame": store.get(&id).map(|f| frame_json(&f))})
        }
        "head" => {
            let ctx = opt_id(&req["ctx"]).unwrap();
            json!({"frame": store.head(req["topic"].as_str().unwrap(), ctx).map(|f| frame_json(&f))})
        }
        "gc_step" => {
            if !gate_gc {
                return json!({"stepped": false});
            }
            let wait = Duration::from_millis(req["wait_ms"].as_u64().unwrap_or(5));
            if gc_parked(wait) {
                let _ = verif::step("gc", Duration::from_secs(10));
                json!({"stepped": true})
            } else {
                json!({"stepped": false})
            }
        }
        "drain" => {
            let s2 = store.clone();
            let h = rt.spawn(async move { s2.wait_for_gc().await });
            let mut steps = 0;
            while !h.is_finished() {
                if gate_gc && gc_parked(Duration::from_millis(1)) {
                    let _ = verif::step("gc", Duration::from_secs(10));
                    steps += 1;
                } else {
                    std::thread::sleep(Duration::from_micros(200));
                }
            }
            json!({"steps": steps, "dump": store.verif_dump()})
        }
        "dump" => json!({"dump": store.verif_dump()}),
        "gates" => {
            let ps: Vec<String> = req["prefixes"].as_array().map(|a| a.iter().filter_map(|x| x.as_str().map(|s| s.to_string())).collect()).unwrap_or_default();
            let refs: Vec<&str> = ps.iter().map(|s| s.as_str()).collect();
            verif::set_gates(&refs);
            json!({"gates": ps})
        }
        "step" => {
            // release one parked actor (no-op if nothing parks there: hooks not compiled in)
            let actor = req["actor"].as_str().unwrap_or("");
            let wait = Duration::from_millis(req["wait_ms"].as_u64().unwrap_or(300));
            match verif::settle(actor, wait) {
                Ok(ActorState::Parked(at)) => {
                    let r = verif::step(actor, Duration::from_millis(20));
                    json!({"stepped": true, "at": at, "then": format!("{:?}", r)})
                }
                other => json!({"stepped": false, "state": format!("{:?}", other)}),
            }
        }
        "stream" => {
            // the whole stream over all contexts in id order, each frame with its CAS content
            let last = opt_id(&req["last"]);
            let with_content = req["content"].as_bool().unwrap_or(true);
            let frames: Vec<Value> = store
                .read_sync(last.as_ref(), None, None)
                .map(|f| {
                    let mut v = frame_json(&f);
                    if with_content {
                        if let Some(h) = &f.hash {
                            v["content"] = match store.cas_read_sync(h) {
                                Ok(b) => json!(base64::prelude::BASE64_STANDARD.encode(b)),
                                Err(_) => Value::Null,
                            };
                            v["cas_ok"] = json!(!v["content"].is_null());
                        }
                    }
                    v
                })
                .collect();
            json!({"frames": frames})
        }
        "burst" => {
            // several client threads appending at once (mode B): items are append requests
            let items: Vec<Value> = req["items"].as_array().cloned().unwrap_or_default();
            let nthreads = req["threads"].as_u64().unwrap_or(2).max(1) as usize;
            let mut lanes: Vec<Vec<(usize, Value)>> = vec![vec![]; nthreads];
            for (i, it) in items.into_iter().enumerate() {
                lanes[i % nthreads].push((i, it));
            }
            let results = std::sync::Mutex::new(Vec::<(usize, Value)>::new());
            std::thread::scope(|sc| {
                for lane in &lanes {
                    let results = &results;
                    sc.spawn(move || {
                        for (i, it) in lane {
                            let r = exec(rt, store, "append", it, false);
                            results.lock().unwrap().push((*i, r));
                        }
                    });
                }
            });
            let mut r = results.into_inner().unwrap();
            r.sort_by_key(|x| x.0);
            json!({"results": r.into_iter().map(|x| x.1).collect::<Vec<_>>()})
        }
        "exit" => json!({"bye": true}),
        other => json!({"err": format!("unknown op {other}")}),
    }
}

#!/usr/bin/env python3
"""archive_seed.py <outdir> <seed id> <caught_by comma list> <result text>: copies a confirmed seeded change (patch.diff,
demo.rs, meta.json of a sub-agent plus the v_*.log of selftest/verify_seed.sh) into /verif/seeded/<seed id>/"""
import json, os, shutil, sys
src, sid, caught, result = sys.argv[1:5]
V = os.path.dirname(os.path.dirname(os.path.abspath(__file__)))
dst = os.path.join(V, "seeded", sid)
os.makedirs(dst, exist_ok=True)
for f in ("patch.diff", "demo.rs"):
    shutil.copy(os.path.join(src, f), os.path.join(dst, f))
m = json.load(open(os.path.join(src, "meta.json")))
suite = ""
if os.path.exists(os.path.join(src, "v_suite.log")):
    ls = [l for l in open(os.path.join(src, "v_suite.log"), errors="replace").read().splitlines() if "Summary" in l]
    suite = ls[-1].strip() if ls else ""
out = {"property": m.get("property", sid.split("-")[0]), "title": m.get("title"), "breaks": m.get("what_it_breaks"),
       "needs": m.get("needs") or m.get("why_tests_pass"), "why_tests_pass": m.get("why_tests_pass"),
       "author": "independent sub-agent (second round: two cooperating sites / a specific history), given only the property text and a scratch worktree",
       "confirmed": f"selftest/verify_seed.sh in the scratch worktree: suite with the change [{suite}]; demo fails with it, passes without",
       "how_verified_by_author": m.get("how_verified"),
       "checks_run": "selftest/run_seed.sh <patch> <props> (apply to /repo, tools/check.py --quick, revert)",
       "caught_by": [c for c in caught.split(",") if c], "result": result}
json.dump(out, open(os.path.join(dst, "meta.json"), "w"), indent=1)
print(dst)

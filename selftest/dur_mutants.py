#!/usr/bin/env python3
"""Self-test of the durability group: code mutants in a scratch copy of /repo.

    python3 selftest/dur_mutants.py [mutant names ...] [--keep]

Creates a detached worktree of /repo's HEAD in /tmp/dur_mut and a copy of the harness crate in
/tmp/dur_mut_h whose path dependency points there (cold build ~3 min, 2.4 GB), applies one
mutant at a time, runs groups.dur quick on the mutated binary and prints which image kinds
judged it bad.  Everything is removed at the end unless --keep is given.  /repo's working tree
is never touched.  Expected (docs/dur-notes.md): m1 m2 m4 by power-loss images only (fjall
flushes its buffer at every commit), m3 by kill and power-loss images, m5 by kill images
(C04 + C10), m6 by every kind (C04 + C07), m0 nothing.
"""
import collections
import json
import os
import shutil
import subprocess
import sys
import time

VERIF = os.path.dirname(os.path.dirname(os.path.abspath(__file__)))
sys.path.insert(0, os.path.join(VERIF, "tools"))
WT, HC = "/tmp/dur_mut", "/tmp/dur_mut_h"
P = "self.keyspace.persist(fjall::PersistMode::SyncAll)?;"


def m0(s):
    return s


def m1(s):   # persist(SyncAll) removed from insert_frame
    j = s.index(P, s.index("pub fn insert_frame"))
    return s[:j] + "// (mutant) no persist" + s[j + len(P):]


def m2(s):   # persist(Buffer) instead of SyncAll
    j = s.index(P, s.index("pub fn insert_frame"))
    return s[:j] + "self.keyspace.persist(fjall::PersistMode::Buffer)?;" + s[j + len(P):]


def m3(s):   # the batch split into three separate inserts, each followed by persist
    i = s.index("pub fn insert_frame")
    a = s.index("let mut batch = self.keyspace.batch();", i)
    b = s.index(P, a) + len(P)
    new = """self.frame_partition.insert(frame.id.as_bytes(), encoded)?;
        self.keyspace.persist(fjall::PersistMode::SyncAll)?;
        self.idx_topic.insert(topic_key, b"")?;
        self.keyspace.persist(fjall::PersistMode::SyncAll)?;
        self.idx_context.insert(idx_context_key_from_frame(frame), b"")?;
        self.keyspace.persist(fjall::PersistMode::SyncAll)?;"""
    return s[:a] + new + s[b:]


def m4(s):   # remove forgets to persist
    j = s.index(P, s.index("pub fn remove"))
    return s[:j] + "// (mutant) no persist" + s[j + len(P):]


def m6(s):   # Store::new forgets to reload the context registry
    a = s.index("        // Load context registrations")
    b = s.index("        // Spawn gc worker thread")
    return s[:a] + s[b:]


def m5_api(a):   # api.rs handle_stream_append: the frame is appended first, the content committed afterwards
    i = a.index("async fn handle_stream_append")
    s0 = a.index("    let hash = {", i)
    s1 = a.index("    };", s0) + len("    };")
    new_hash = """    let mut vdata: Vec<u8> = Vec::new();
    while let Some(frame) = body.frame().await {
        if let Ok(data) = frame?.into_data() {
            vdata.extend_from_slice(&data);
        }
    }
    let hash = if vdata.is_empty() { None } else { Some(ssri::Integrity::from(&vdata)) };"""
    a = a[:s0] + new_hash + a[s1:]
    j = a.index("Err(e) => return response_for_store_error(e),", i)
    j = a.index("};", j) + 2
    return a[:j] + """
    if !vdata.is_empty() {
        let mut writer = store.cas_writer().await?;
        writer.write_all(&vdata).await?;
        writer.commit().await?;
    }""" + a[j:]


STORE_MUT = {"m0-unchanged": m0, "m1-no-persist": m1, "m2-persist-buffer": m2, "m3-three-inserts": m3,
             "m4-remove-no-persist": m4, "m5-cas-after-append": m0, "m6-no-registry-reload": m6}
API_MUT = {"m5-cas-after-append": m5_api}


def sh(cmd, **kw):
    return subprocess.run(cmd, shell=True, capture_output=True, text=True, **kw)


def main():
    keep = "--keep" in sys.argv
    which = [a for a in sys.argv[1:] if not a.startswith("--")] or list(STORE_MUT)
    if not os.path.isdir(WT):
        r = sh(f"git -C /repo worktree add --detach {WT} HEAD")
        if r.returncode != 0:
            print(r.stderr)
            return 2
    if not os.path.isdir(HC):
        os.makedirs(HC)
        for x in ("src", ".cargo"):
            shutil.copytree(os.path.join(VERIF, "harness", x), os.path.join(HC, x))
        for x in ("Cargo.toml", "Cargo.lock"):
            shutil.copy(os.path.join(VERIF, "harness", x), HC)
        t = open(os.path.join(HC, "Cargo.toml")).read().replace('path = "/repo"', f'path = "{WT}"')
        open(os.path.join(HC, "Cargo.toml"), "w").write(t)
    store_rs, api_rs = os.path.join(WT, "src/store/mod.rs"), os.path.join(WT, "src/api.rs")
    sh("git checkout -- src/store/mod.rs src/api.rs", cwd=WT)
    store0, api0 = open(store_rs).read(), open(api_rs).read()
    import groups.dur as dur
    dur.XSV = os.path.join(HC, "target/debug/xsv")
    out = {}
    try:
        for name in which:
            open(store_rs, "w").write(STORE_MUT[name](store0))
            open(api_rs, "w").write(API_MUT.get(name, lambda a: a)(api0))
            t = time.time()
            b = sh("cargo build 2>&1 | tail -3", cwd=HC)
            if "Finished" not in b.stdout:
                print(name, "BUILD FAILED", b.stdout)
                continue
            try:
                r = dur.run("quick", 0)
            except Exception as e:      # noqa
                print(name, "TOOL ERROR", str(e)[:800])
                continue
            kinds = collections.Counter()
            for prop, vs in r["violations"].items():
                for v in vs:
                    kinds[(prop, v["kind"].split(" image")[0], v["kind"].split(": ")[1])] += 1
            out[name] = {"violations": {k: len(v) for k, v in r["violations"].items()}, "images": r["images"],
                         "wall_s": r["wall_s"], "build_s": round(time.time() - t - r["wall_s"])}
            print("=====", name, out[name], flush=True)
            for k, n in sorted(kinds.items()):
                print("   ", n, k, flush=True)
    finally:
        open(store_rs, "w").write(store0)
        open(api_rs, "w").write(api0)
        import glob
        for f in glob.glob(os.path.join(VERIF, "replays", "dur-b*.json")):   # written by the mutant runs
            os.unlink(f)
        if not keep:
            sh(f"git -C /repo worktree remove --force {WT}; git -C /repo worktree prune")
            shutil.rmtree(HC, ignore_errors=True)
    print(json.dumps(out, indent=1))
    bad = [n for n in out if (n == "m0-unchanged") != (not out[n]["violations"])]
    return 1 if bad or len(out) < len(which) else 0


if __name__ == "__main__":
    sys.exit(main())

#!/bin/bash
# usage: quickmut.sh <name> <python-expr-replacing s> ; applies to /repo/src/store/mod.rs, runs store pipeline, reverts
name=$1; shift
cd /repo && python3 - "$@" <<'PY'
import sys
p='/repo/src/store/mod.rs'
s=open(p).read()
old,new=sys.argv[1],sys.argv[2]
assert s.count(old)>=1,("anchor not found",old)
s=s.replace(old,new,1)
open(p,'w').write(s)
PY
[ $? -ne 0 ] && exit 2
cd /verif/harness && cargo build 2>&1 | grep -E "^error" -A5
./target/debug/xsv store-replay --in /dev/shm/t/beh.ndjson --out /dev/shm/t/trace_$name.ndjson --jobs 12 >/dev/null
cd /verif/spec && TRACE=/dev/shm/t/trace_$name.ndjson JAVA_TOOL_OPTIONS="-Xss1g" timeout 600 tlc -workers 1 -metadir /dev/shm/tlc/t_$name -cleanup -noGenerateSpecTE -config TraceStore.cfg TraceStore.tla 2>&1 | tr '\n' ' ' | sed 's/<< "VIOL"/\n<< "VIOL"/g; s/<<"VERDICT"/\n<<"VERDICT"/' | grep -E "VERDICT|STUCK|Error" | cut -c1-200
echo "$name: $(grep -c . /dev/shm/t/trace_$name.ndjson) events"
cd /repo && git checkout -q src/store/mod.rs

#!/usr/bin/env python3
"""Self-test of the machinery: applies every seeded change in /verif/seeded/<id>/ to /repo (one at a time, reverted
afterwards), runs the quick check of every property listed under caught_by in its meta.json and expects exit 1 with a
VIOLATION line; finally runs the quick checks of all those properties on the unchanged tree and expects exit 0.
Writes selftest/seed_results.json.  /repo must be clean and no other job may be using it."""
import json
import os
import subprocess
import sys
import time

V = os.path.dirname(os.path.dirname(os.path.abspath(__file__)))
REPO = os.environ.get("XS_REPO", "/repo")  # selftest/sandbox_seeds.sh runs this on a scratch copy


def sh(cmd, **kw):
    return subprocess.run(cmd, shell=True, capture_output=True, text=True, **kw)


def main():
    only = sys.argv[1:]
    if sh(f"git -C {REPO} status --porcelain --untracked-files=no").stdout.strip():
        print("/repo is not clean")
        return 2
    seeds = sorted(d for d in os.listdir(os.path.join(V, "seeded")) if os.path.isdir(os.path.join(V, "seeded", d)))
    if only:
        seeds = [s for s in seeds if s in only or s.split("-")[0] in only]
    out = []
    for s in seeds:
        meta = json.load(open(os.path.join(V, "seeded", s, "meta.json")))
        props = meta.get("caught_by") or [meta["property"]]
        patch = os.path.join(V, "seeded", s, "patch.diff")
        r = sh(f"git -C {REPO} apply {patch}")
        if r.returncode != 0:
            out.append({"seed": s, "applied": False, "err": r.stderr[-300:]})
            print(s, "DOES NOT APPLY")
            continue
        res = {}
        try:
            for p in props[:2]:
                t0 = time.time()
                c = sh(f"python3 tools/check.py {p} --quick", cwd=V)
                res[p] = {"exit": c.returncode, "violation_line": "VIOLATION property=" + p in c.stdout, "wall_s": round(time.time() - t0)}
        finally:
            sh(f"git -C {REPO} checkout -- .")
        ok = any(v["exit"] == 1 and v["violation_line"] for v in res.values())
        out.append({"seed": s, "applied": True, "caught": ok, "checks": res})
        print(s, "caught" if ok else "MISSED", res, flush=True)
        json.dump(out, open(os.path.join(V, "selftest", "seed_results.json"), "w"), indent=1)
    missed = [o["seed"] for o in out if not o.get("caught")]
    print("missed:", missed)
    return 1 if missed else 0


if __name__ == "__main__":
    sys.exit(main())

#!/bin/bash
# run_seed.sh <patch.diff> <prop> [more props...]: apply to /repo, run quick checks, revert
P=$1; shift
cd /repo && git status --short | grep -v '^??' | head -1 | grep -q . && { echo "repo dirty"; exit 2; }
git -C /repo apply $P || { echo "apply failed"; exit 2; }
for prop in "$@"; do
  out=$(cd /verif && python3 tools/check.py $prop --quick 2>/tmp/run_seed_err.log); rc=$?
  echo "  $prop exit=$rc $(echo "$out" | grep -E '^VIOLATION|^OK' | head -2 | tr '\n' ' ')"
done
git -C /repo checkout -- .

#!/bin/bash
# sandbox_run.sh <tag> <command...>: runs a command inside a scratch copy of /verif (cwd) whose harness builds against a
# scratch worktree of /repo's HEAD, under /tmp/xsv_sb_<tag>; XS_REPO points the tools at that worktree. Removed at the end.
TAG=$1; shift
SB=/tmp/xsv_sb_$TAG
rm -rf $SB/verif; git -C /repo worktree remove --force $SB/repo 2>/dev/null; git -C /repo worktree prune
mkdir -p $SB
git -C /repo worktree add --detach $SB/repo HEAD >/dev/null 2>&1 || { echo "worktree failed"; exit 2; }
rsync -a --exclude harness/target --exclude harness/target-xs --exclude .cache --exclude replays --exclude .git /verif/ $SB/verif/
sed -i 's#path = "/repo"#path = "'$SB'/repo"#' $SB/verif/harness/Cargo.toml
cd $SB/verif && XS_REPO=$SB/repo "$@"; rc=$?
git -C /repo worktree remove --force $SB/repo; git -C /repo worktree prune; rm -rf $SB
exit $rc

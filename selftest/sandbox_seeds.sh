#!/bin/bash
# sandbox_seeds.sh [seed ids / property ids ...]: runs selftest/run_all_seeds.py on a scratch copy of /repo (git worktree of
# HEAD) and of /verif under /tmp/xsv_sb, so that /repo and /verif stay usable meanwhile. Results: selftest/seed_results.json
# is copied back. Everything under /tmp/xsv_sb is removed at the end.
SB=/tmp/xsv_sb
rm -rf $SB/verif; git -C /repo worktree remove --force $SB/repo 2>/dev/null; git -C /repo worktree prune
mkdir -p $SB
git -C /repo worktree add --detach $SB/repo HEAD >/dev/null 2>&1 || { echo "worktree failed"; exit 2; }
rsync -a --exclude harness/target --exclude harness/target-xs --exclude .cache --exclude replays --exclude .git /verif/ $SB/verif/
sed -i 's#path = "/repo"#path = "'$SB'/repo"#' $SB/verif/harness/Cargo.toml
cd $SB/verif && XS_REPO=$SB/repo python3 selftest/run_all_seeds.py "$@"; rc=$?
cp $SB/verif/selftest/seed_results.json /verif/selftest/seed_results.json 2>/dev/null
git -C /repo worktree remove --force $SB/repo; git -C /repo worktree prune; rm -rf $SB
exit $rc

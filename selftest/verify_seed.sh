#!/bin/bash
# verify_seed.sh <outdir> <worktree>: confirms a seeded change: suite passes with it, demo fails with it and passes without
OUT=$1; WT=$2
cd $WT || exit 2
git checkout -q -- . ; rm -f tests/seed_demo.rs
git apply $OUT/patch.diff || { echo "RESULT apply-failed"; exit 1; }
# (a commands:: test is known to hang now and then under load on the unchanged tree too: bounded, retried once)
for try in 1 2; do timeout 300 cargo nextest run --workspace --no-fail-fast --offline --test-threads 8 > $OUT/v_suite.log 2>&1 && break; pkill -P $$ -f cross_stream 2>/dev/null; done
SUITE=$(grep -E "^\s+Summary" $OUT/v_suite.log | tail -1)
cp $OUT/demo.rs tests/seed_demo.rs
timeout 600 cargo nextest run --offline --test seed_demo > $OUT/v_demo_with.log 2>&1; W=$?
git checkout -q -- .
timeout 600 cargo nextest run --offline --test seed_demo > $OUT/v_demo_without.log 2>&1; WO=$?
rm -f tests/seed_demo.rs
echo "RESULT suite=[$SUITE] demo_with_exit=$W demo_without_exit=$WO"

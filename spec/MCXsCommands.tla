---- MODULE MCXsCommands ----
EXTENDS XsCommands
CONSTANT MaxLog
LogBound == Len(log) <= MaxLog
====

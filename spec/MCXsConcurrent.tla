---- MODULE MCXsConcurrent ----
EXTENDS XsConcurrent, Json
PlanFF == [w \in {"w1", "w2"} |-> IF w = "w1" THEN <<<<"f", 0>>, <<"f", 0>>>> ELSE <<<<"f", 0>>, <<"f", 0>>>>]
PlanFE == [w \in {"w1", "w2"} |-> IF w = "w1" THEN <<<<"e", 0>>, <<"f", 0>>>> ELSE <<<<"f", 0>>, <<"e", 0>>>>]
PlanCtx == [w \in {"w1", "w2"} |-> IF w = "w1" THEN <<<<"f", 0>>, <<"e", 1>>>> ELSE <<<<"f", 1>>, <<"f", 0>>>>]
Plan3 == [w \in {"w1", "w2"} |-> IF w = "w1" THEN <<<<"f", 0>>, <<"f", 0>>, <<"f", 0>>>> ELSE <<<<"f", 0>>>>]
Hist0 == <<>>
Hist1 == <<0>>
Hist2 == <<0, 0>>
Hist3c == <<0, 1, 0>>
GenInv == (WritersDone /\ ReaderIdle /\ hpc # "init" /\ (closedSeen \/ ~WillClose)) => PrintT(<<"SCHED", ToJson(hist)>>)
RC0 == 0
RC1 == 1
Dbg2 == lpc # "hold"
Dbg3 == inbox = <<>>
Dbg4 == ~sub
Dbg1 == ~(lpc = "hold" /\ llast # NONE /\ lcur = llast)
====

---- MODULE MCXsDurable ----
EXTENDS XsDurable, Json
TopicsQ == {"tA", "xs.context"}
TopicsG == {"tA", "tB", "xs.context"}
HashesQ == {"none", "h1"}
HashesG == {"none", "h1", "h2"}
TTLsQ == {"forever", "head:1"}
TTLsG == {"forever", "none", "head:1", "head:2"}
(* behaviour generation: print the operation list once it is complete *)
GenInv == (Len(ops) = MaxOps /\ todo = <<>>) => PrintT(<<"REPLAY", ToJson(ops)>>)
====

---- MODULE MCXsGenerators ----
EXTENDS XsGenerators
CONSTANT MaxLog
LogBound == Len(log) <= MaxLog
====

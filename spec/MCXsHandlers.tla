---- MODULE MCXsHandlers ----
EXTENDS XsHandlers
CONSTANT MaxLog
LogBound == Len(log) <= MaxLog
====

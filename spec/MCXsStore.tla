---- MODULE MCXsStore ----
EXTENDS XsStore, Json
TTLsMixed == {Forever, Eph, TimeT(1), HeadT(1), HeadT(2)}
TTLsGc == {Forever, TimeT(1), HeadT(1), HeadT(2)}
TTLsForever == {Forever}
TTLsGen == {Forever, Eph, TimeT(1), TimeT(2), HeadT(1), HeadT(2)}
GenInv == fin => PrintT(<<"REPLAY", ToJson(hist)>>)
====

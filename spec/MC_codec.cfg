SPECIFICATION Spec
CONSTANT Mode = "check"
INVARIANT C12_TTLRoundTrip C12_Head0Rejected C12_MalformedRejected C12_ParsedRendersCanonically C12_FollowRoundTrip
CHECK_DEADLOCK FALSE

SPECIFICATION Spec
CONSTANTS
  Writers = {"w1", "w2"}
  Plan <- Plan3
  History <- Hist1
  B = 1
  M = 1
  Follow = "hb"
  OptTail = FALSE
  OptLast = 0
  Limit = 0
  RCtx <- ALLC
  MaxPulse = 2
  UseLock = TRUE
  DedupLe = TRUE
  SubFirst = TRUE
  CommitFirst = TRUE
  LimitFix = TRUE
  HbStops = TRUE
  Ahead = 0
  Gen = FALSE
VIEW mcview
INVARIANT C02_PollerNoMiss C02_BroadcastOrder C03_Increasing C06_Scope StartOK C03_ThresholdOnce C03_ThresholdPlaced C11_LimitNotExceeded C11_LimitCloses C11_TailNoHistory C11_PulseOnlyIfAsked C11_NoSilentGap C11_ClosedIsFinal C09_EphemeralNotStored  
CHECK_DEADLOCK FALSE

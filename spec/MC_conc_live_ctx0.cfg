SPECIFICATION FairSpec
CONSTANTS
  Writers = {"w1", "w2"}
  Plan <- PlanCtx
  History <- Hist3c
  B = 3
  M = 2
  Follow = "on"
  OptTail = FALSE
  OptLast = 0
  Limit = 0
  RCtx <- RC0
  MaxPulse = 2
  UseLock = TRUE
  DedupLe = TRUE
  SubFirst = TRUE
  CommitFirst = TRUE
  LimitFix = TRUE
  HbStops = TRUE
  Ahead = 0
  Gen = FALSE
PROPERTY L_WritersFinish L_Settles L_LimitEnds L_NonFollowEnds L_LagEnds L_ThresholdSent L_PollerComplete L_FollowerCompleteKnown
CHECK_DEADLOCK FALSE

SPECIFICATION Spec
CONSTANTS
  Writers = {"w1", "w2"}
  Plan <- PlanFF
  History <- Hist2
  B = 3
  M = 2
  Follow = "off"
  OptTail = FALSE
  OptLast = 1
  Limit = 1
  RCtx <- ALLC
  MaxPulse = 2
  UseLock = TRUE
  DedupLe = TRUE
  SubFirst = TRUE
  CommitFirst = TRUE
  LimitFix = TRUE
  HbStops = TRUE
  Ahead = 0
  Gen = FALSE
VIEW mcview
INVARIANT C02_PollerNoMiss C02_BroadcastOrder C03_Increasing C06_Scope StartOK C03_ThresholdOnce C03_ThresholdPlaced C11_LimitNotExceeded C11_LimitCloses C11_TailNoHistory C11_PulseOnlyIfAsked C11_NoSilentGap C11_ClosedIsFinal C09_EphemeralNotStored  
CHECK_DEADLOCK FALSE

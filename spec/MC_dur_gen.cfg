SPECIFICATION Spec
CONSTANTS
  MaxOps = 8
  MaxCrashes = 0
  Topics <- TopicsG
  Hashes <- HashesG
  TTLs <- TTLsG
  AllowBig = TRUE
  AllowImport = TRUE
  PersistIns = "sync"
  PersistRem = "sync"
  CommitFlush = TRUE
  OneBatch = TRUE
  CasFirst = TRUE
  Gen = TRUE
INVARIANT GenInv
CHECK_DEADLOCK FALSE

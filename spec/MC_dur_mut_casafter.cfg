SPECIFICATION Spec
CONSTANTS
  MaxOps = 2
  MaxCrashes = 1
  Topics <- TopicsQ
  Hashes <- HashesQ
  TTLs <- TTLsQ
  AllowBig = TRUE
  AllowImport = TRUE
  PersistIns = "sync"
  PersistRem = "sync"
  CommitFlush = TRUE
  OneBatch = TRUE
  CasFirst = FALSE
  Gen = FALSE
INVARIANT INV_Durable
CHECK_DEADLOCK FALSE

SPECIFICATION Spec
CONSTANTS
  MaxOps = 2
  MaxCrashes = 1
  Topics <- TopicsQ
  Hashes <- HashesQ
  TTLs <- TTLsQ
  AllowBig = TRUE
  AllowImport = TRUE
  PersistIns = "none"
  PersistRem = "sync"
  CommitFlush = FALSE
  OneBatch = TRUE
  CasFirst = TRUE
  Gen = FALSE
INVARIANT INV_Durable
CHECK_DEADLOCK FALSE

SPECIFICATION Spec
CONSTANTS
  MaxOps = 3
  MaxCrashes = 1
  Topics <- TopicsQ
  Hashes <- HashesQ
  TTLs <- TTLsQ
  AllowBig = TRUE
  AllowImport = TRUE
  PersistIns = "sync"
  PersistRem = "none"
  CommitFlush = TRUE
  OneBatch = TRUE
  CasFirst = TRUE
  Gen = FALSE
INVARIANT INV_Durable
CHECK_DEADLOCK FALSE

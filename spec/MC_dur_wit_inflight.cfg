SPECIFICATION Spec
CONSTANTS
  MaxOps = 2
  MaxCrashes = 1
  Topics <- TopicsQ
  Hashes <- HashesQ
  TTLs <- TTLsQ
  AllowBig = TRUE
  AllowImport = TRUE
  PersistIns = "sync"
  PersistRem = "sync"
  CommitFlush = TRUE
  OneBatch = TRUE
  CasFirst = TRUE
  Gen = FALSE
INVARIANT SomeInflightSurvives
CHECK_DEADLOCK FALSE

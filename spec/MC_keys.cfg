SPECIFICATION Spec
CONSTANTS
  Bytes = {1, 2, 255}
  MaxLen = 2
CHECK_DEADLOCK FALSE

SPECIFICATION Spec
CONSTANTS
  Names = {"a"}
  Ctxs = {0}
  Scripts = {"two", "err", "bad"}
  MaxClient = 3
  MaxRestarts = 1
  MaxLog = 12
  KeyByCtx = TRUE
  OneTerminal = TRUE
  SkipOldCalls = TRUE
  StampCall = TRUE
  CallerCtx = TRUE
  LatestWins = TRUE
  Gen = FALSE
CONSTRAINT LogBound
VIEW mcview
INVARIANT C19_AtMostOneTerminal C19_TerminalIsLast C19_RecvInOrder C19_Stamped C19_CallerCtx C19_ResultMatchesScript C19_NoReplay C19_InvalidDefinitionReported C19_ExactlyOneTerminalAtQuiet C19_UndefinedSilent C17_CommandsRestored C19_LatestValidDefinition
CHECK_DEADLOCK FALSE

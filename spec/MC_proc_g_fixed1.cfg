SPECIFICATION Spec
CONSTANTS
  Names = {"a"}
  Ctxs = {0}
  Scripts = {"two", "nocontent"}
  MaxClient = 3
  MaxRestarts = 1
  MaxCycles = 1
  MaxLog = 12
  KeyByCtx = TRUE
  CompactByRef = TRUE
  Panics = FALSE
  StopLast = TRUE
  StampSource = TRUE
  OneSpawnError = TRUE
  FeedOnce = TRUE
  Gen = FALSE
CONSTRAINT LogBound
VIEW mcview
INVARIANT C18_Lifecycle C18_RecvInOrderAndComplete C18_SourceAndCtx C18_AtMostOneSpawnError C18_RefusedNeverRuns C18_EverySpawnAnswered C18_SendsOnceInOrder C18_StartedTaskStops C17_GeneratorsRestored
CHECK_DEADLOCK FALSE

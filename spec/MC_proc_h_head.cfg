SPECIFICATION Spec
CONSTANTS
  Names = {"a"}
  Ctxs = {0, 1}
  Scripts = {"echoH"}
  MaxClient = 3
  MaxRestarts = 0
  MaxData = 2
  MaxLog = 12
  KeyByCtx = TRUE
  SubBeforeAnnounce = TRUE
  PatientClient = TRUE
  OwnFilter = TRUE
  RegSkipLe = TRUE
  AtomicCall = TRUE
  StampAll = TRUE
  ForceCtx = TRUE
  UnregOnce = TRUE
  CompactUnreg = TRUE
  CompactClientUnreg = TRUE
  Gen = FALSE
CONSTRAINT LogBound
VIEW mcview
INVARIANT C14_InvokedIsPrefixOfEligible C14_EligibleAllInvokedAtQuiet C14_OneAtATime C14_NoForeignCtx C14_NeverOwnOutput C14_NoOldRegistrationTraffic C15_OutputsStamped C15_OutputsInHandlerCtx C15_OrderWithinCall C15_AllOrNothingPerCall C16_StopAnnouncedOnce C16_StoppedIsSilent C16_InvalidNeverActive C16_AtMostOneResponder C16_ReplacedIsStopped C16_RegisteredImpliesSubscribed
CHECK_DEADLOCK FALSE

SPECIFICATION FairSpec
CONSTANTS
  Names = {"a"}
  Ctxs = {0, 1}
  Scripts = {"two", "err", "bad"}
  MaxClient = 3
  MaxRestarts = 1
  MaxLog = 12
  KeyByCtx = TRUE
  OneTerminal = TRUE
  SkipOldCalls = TRUE
  StampCall = TRUE
  CallerCtx = TRUE
  LatestWins = TRUE
  Gen = FALSE
CHECK_DEADLOCK FALSE
PROPERTY L_Quiet L_EveryCallAnswered L_InvalidReported L_Restored

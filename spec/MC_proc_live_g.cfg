SPECIFICATION FairSpec
CONSTANTS
  Names = {"a"}
  Ctxs = {0}
  Scripts = {"two", "nocontent"}
  MaxClient = 3
  MaxRestarts = 1
  MaxCycles = 1
  MaxLog = 12
  KeyByCtx = TRUE
  CompactByRef = TRUE
  Panics = FALSE
  StopLast = TRUE
  StampSource = TRUE
  OneSpawnError = TRUE
  FeedOnce = TRUE
  Gen = FALSE
CHECK_DEADLOCK FALSE
PROPERTY L_Quiet L_EverySpawnAnswered L_StartedTaskStops L_Restored

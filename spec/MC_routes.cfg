SPECIFICATION Spec
CONSTANT Mode = "check"
CHECK_DEADLOCK FALSE

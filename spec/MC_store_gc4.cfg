SPECIFICATION Spec
CONSTANTS
  W = 8
  MaxOps = 4
  MaxClock = 3
  Topics = {"tA", "tAB"}
  TTLs <- TTLsGc
  MaxImports = 0
  Gen = FALSE
  Dev = "none"
VIEW mcview
INVARIANT INV_Read INV_ReadExact INV_Get INV_Head INV_Dump INV_Bad INV_EphNeverStored INV_Drained
PROPERTY C08_NoEarlyLoss C01_AppendIdsIncrease
CHECK_DEADLOCK FALSE

SPECIFICATION Spec
CONSTANTS
  W = 8
  MaxOps = 10
  MaxClock = 4
  Topics = {"tA", "tAB", "xs.context", "tNUL1"}
  TTLs <- TTLsGen
  MaxImports = 2
  Gen = TRUE
  Dev = "none"
INVARIANT GenInv
CHECK_DEADLOCK FALSE

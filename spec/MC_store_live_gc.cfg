SPECIFICATION FairSpec
CONSTANTS
  W = 8
  MaxOps = 3
  MaxClock = 3
  Topics = {"tA", "tAB"}
  TTLs <- TTLsGc
  MaxImports = 0
  Gen = FALSE
  Dev = "none"
INVARIANT INV_Drained
PROPERTY L_GcDrains L_C09_Enforced
CHECK_DEADLOCK FALSE

SPECIFICATION Spec
CONSTANTS
  W = 8
  MaxOps = 2
  MaxClock = 3
  Topics = {"tA", "tAB", "xs.context", "tNUL1"}
  TTLs <- TTLsMixed
  MaxImports = 1
  Gen = FALSE
  Dev = "none"
VIEW mcview
INVARIANT INV_Read INV_ReadExact INV_Get INV_Head INV_Dump INV_Bad INV_EphNeverStored INV_Drained
PROPERTY C08_NoEarlyLoss C01_AppendIdsIncrease
CHECK_DEADLOCK FALSE

---------------------------- MODULE TraceDurable ----------------------------
(***************************************************************************)
(* Observer for crash images of the real store (DESIGN 4.4, Appendix C     *)
(* ObsDurable).  The recorded file holds, per run, one reset event with the*)
(* operation list as the client saw it, and one image event per crash      *)
(* image that the real Store::new recovered in a fresh process:            *)
(*   [e |-> "image", img, kind ("kill" | "power"), variant, k (crash       *)
(*    point), acked (operations acknowledged before the crash), inflight   *)
(*    (an operation was started and not acknowledged), o (observation)]    *)
(* Every image is judged with XsDurProps!ImageVerdict - the operator TLC   *)
(* also checks on the code layer XsDurable: the recovered store must be    *)
(* Apply(acked) or Apply(acked + in flight) on every access path at once,  *)
(* the registry rebuilt, and after a kill every visible hash readable.     *)
(* ackres events carry the result of an acknowledged append against what   *)
(* the registry demands (C07).                                             *)
(***************************************************************************)
EXTENDS XsDurProps, Json, IOUtils

Rec == ndJsonDeserialize(IOEnv.TRACE)

VARIABLES l,     \* next event
          b,     \* run number
          ops,   \* operation list of the run
          bad,   \* property ids violated so far
          nimg   \* images judged

tvars == <<l, b, ops, bad, nimg>>

Init == l = 1 /\ b = 0 /\ ops = <<>> /\ bad = {} /\ nimg = 0

E == Rec[l]
Is(e) == l <= Len(Rec) /\ E.e = e /\ l' = l + 1

Report(V, tag) ==
  \A v \in V : PrintT("VIOL " \o ToJson([props |-> v[1], b |-> b, l |-> l, e |-> tag \o ": " \o v[2]]))
Props(V) == UNION {v[1] : v \in V}

Reset ==
  /\ Is("reset")
  /\ b' = E.b /\ ops' = E.ops
  /\ UNCHANGED <<bad, nimg>>

EvImage ==
  /\ Is("image")
  /\ LET V == ImageVerdict(ops, E.acked, E.inflight, E.kind, E.o) IN
     /\ Report(V, E.variant \o " image " \o ToString(E.img) \o " after " \o ToString(E.acked) \o " acks")
     /\ bad' = bad \cup Props(V)
  /\ nimg' = nimg + 1
  /\ UNCHANGED <<b, ops>>

(* an acknowledged append answered differently from what the registry demands *)
EvAckRes ==
  /\ Is("ackres")
  /\ LET V == IF E.ok = E.expect THEN {}
              ELSE {<<{"C07"}, "append " \o ToString(E.k) \o (IF E.ok THEN " accepted" ELSE " rejected") \o " against the registry">>} IN
     /\ Report(V, "run")
     /\ bad' = bad \cup Props(V)
  /\ UNCHANGED <<b, ops, nimg>>

EvOther ==
  /\ l <= Len(Rec)
  /\ E.e \notin {"reset", "image", "ackres"}
  /\ l' = l + 1
  /\ UNCHANGED <<b, ops, bad, nimg>>

Next == Reset \/ EvImage \/ EvAckRes \/ EvOther

Spec == Init /\ [][Next]_tvars

Done == l = Len(Rec) + 1
Final == Done => PrintT("VERDICT " \o ToJson([bad |-> bad, known |-> {}, events |-> Len(Rec), images |-> nimg]))
Consumed == IF TLCGet("stats").diameter = Len(Rec) + 1 THEN TRUE
            ELSE PrintT(<<"STUCK", TLCGet("stats").diameter, Len(Rec)>>) /\ FALSE
=============================================================================

---------------------------- MODULE TraceFollow ----------------------------
(***************************************************************************)
(* Observer for recorded executions of concurrent writers, one reader      *)
(* (follow / tail / limit / heartbeat / context / last-id) and one last-id *)
(* poller (DESIGN Appendix C, ObsFollow).  Operations overlap, so every    *)
(* operation is a call event and a return event and the verdict only uses  *)
(* the order of events that really are ordered: "returned before the read  *)
(* was called", "called after the read returned", the order of deliveries. *)
(* The history is accumulated and judged once, at the quiescent event.     *)
(* Hook events (append.id, hist.sent, ...) are skipped, except that        *)
(* hist.sent is remembered to tell the known finding C03-ephemeral-dropped *)
(* from any other loss.                                                    *)
(***************************************************************************)
EXTENDS Integers, Sequences, FiniteSets, SequencesExt, FiniteSetsExt, TLC, Json, IOUtils

Rec == ndJsonDeserialize(IOEnv.TRACE)

VARIABLES l, s,
          pend,      \* writer -> [kind, ctx, call]
          A,         \* completed appends: set of [id, kind, ctx, call, ret]
          opts, rc, rr, B,
          D,         \* deliveries: seq of [id, topic, ctx, kind, pos, cas]
          closed,
          polls,     \* seq of [last, call, ret, ids, topics]
          pcall,
          histSent,
          bad, known, nq

vars == <<l, s, pend, A, opts, rc, rr, B, D, closed, polls, pcall, histSent, bad, known, nq>>

NoOpts == [follow |-> FALSE, heartbeat |-> FALSE, tail |-> FALSE, last |-> 0, limit |-> 0, ctx |-> -1]

Init ==
  /\ l = 1 /\ s = 0 /\ pend = <<>> /\ A = {} /\ opts = NoOpts /\ rc = 0 /\ rr = 0 /\ B = 0
  /\ D = <<>> /\ closed = FALSE /\ polls = <<>> /\ pcall = [last |-> 0, call |-> 0]
  /\ histSent = {} /\ bad = {} /\ known = {} /\ nq = 0

E == Rec[l]
Is(e) == l <= Len(Rec) /\ E.e = e /\ l' = l + 1

KindOf(ttl) == IF ttl = "ttl=ephemeral" THEN "e" ELSE "f"
Synthetic(t) == t \in {"xs.threshold", "xs.pulse"}

Reset ==
  /\ Is("reset")
  /\ s' = E.s /\ pend' = <<>> /\ A' = {} /\ opts' = NoOpts /\ rc' = 0 /\ rr' = 0 /\ B' = 0
  /\ D' = <<>> /\ closed' = FALSE /\ polls' = <<>> /\ pcall' = [last |-> 0, call |-> 0] /\ histSent' = {}
  /\ UNCHANGED <<bad, known, nq>>

Scenario ==
  /\ Is("scenario")
  /\ B' = E.opts.B
  /\ UNCHANGED <<s, pend, A, opts, rc, rr, D, closed, polls, pcall, histSent, bad, known, nq>>

WCall ==
  /\ Is("w.call")
  /\ pend' = [w \in (DOMAIN pend) \cup {E.w} |-> IF w = E.w THEN [kind |-> E.kind, ctx |-> E.ctx, call |-> l] ELSE pend[w]]
  /\ UNCHANGED <<s, A, opts, rc, rr, B, D, closed, polls, pcall, histSent, bad, known, nq>>

WRet ==
  /\ Is("w.ret")
  /\ IF E.ok /\ E.w \in DOMAIN pend
     THEN A' = A \cup {[id |-> E.f.id, kind |-> KindOf(E.f.ttl), ctx |-> E.f.ctx, call |-> pend[E.w].call, ret |-> l]}
     ELSE A' = A
  /\ UNCHANGED <<s, pend, opts, rc, rr, B, D, closed, polls, pcall, histSent, bad, known, nq>>

RCall ==
  /\ Is("r.call")
  /\ opts' = [follow |-> E.follow, heartbeat |-> E.heartbeat, tail |-> E.tail, last |-> E.last, limit |-> E.limit, ctx |-> E.ctx]
  /\ rc' = l
  /\ UNCHANGED <<s, pend, A, rr, B, D, closed, polls, pcall, histSent, bad, known, nq>>

RRet ==
  /\ Is("r.ret") /\ rr' = l
  /\ UNCHANGED <<s, pend, A, opts, rc, B, D, closed, polls, pcall, histSent, bad, known, nq>>

RRecv ==
  /\ Is("r.recv")
  /\ D' = Append(D, [id |-> E.id, topic |-> E.topic, ctx |-> E.ctx, kind |-> KindOf(E.ttl), pos |-> l, cas |-> E.cas_ok])
  /\ UNCHANGED <<s, pend, A, opts, rc, rr, B, closed, polls, pcall, histSent, bad, known, nq>>

RClosed ==
  /\ Is("r.closed") /\ closed' = TRUE
  /\ UNCHANGED <<s, pend, A, opts, rc, rr, B, D, polls, pcall, histSent, bad, known, nq>>

PCall ==
  /\ Is("p.call") /\ pcall' = [last |-> E.last, call |-> l]
  /\ UNCHANGED <<s, pend, A, opts, rc, rr, B, D, closed, polls, histSent, bad, known, nq>>

PRet ==
  /\ Is("p.ret")
  /\ polls' = Append(polls, [last |-> pcall.last, call |-> pcall.call, ret |-> l,
                             ids |-> [j \in 1..Len(E.res) |-> E.res[j].id],
                             topics |-> {E.res[j].topic : j \in 1..Len(E.res)}])
  /\ UNCHANGED <<s, pend, A, opts, rc, rr, B, D, closed, pcall, histSent, bad, known, nq>>

HistSent ==
  /\ Is("hist.sent") /\ histSent' = histSent \cup {E.id}
  /\ UNCHANGED <<s, pend, A, opts, rc, rr, B, D, closed, polls, pcall, bad, known, nq>>

-----------------------------------------------------------------------------
(* the verdict, over the accumulated history (sets are bound once with LET: traces of stress runs are long) *)
StrictlyInc(q) == \A a, b \in 1..Len(q) : a < b => q[a] < q[b]
IncSeq(q) == \A a \in 1..(Len(q) - 1) : q[a] < q[a + 1]

ReaderVerdict(q) ==
  IF rc = 0 THEN {} ELSE
  LET DataSeq == SelectSeq(D, LAMBDA d : ~Synthetic(d.topic))
      DataIds == [j \in 1..Len(DataSeq) |-> DataSeq[j].id]
      DSet == ToSet(DataIds)
      MaxD == IF DSet = {} THEN 0 ELSE Max(DSet)
      AIds == {a.id : a \in A}
      Before == {a.id : a \in {a \in A : a.ret < rc}}          \* appended completely before the read was called
      EphIds == {a.id : a \in {a \in A : a.kind = "e"}}
      ThreshIdx == {j \in 1..Len(D) : D[j].topic = "xs.threshold"}
      NThresh == Cardinality(ThreshIdx)
      NPulse == Cardinality({j \in 1..Len(D) : D[j].topic = "xs.pulse"})
      LagPossible == Cardinality({a \in A : a.ret > rc}) > B
      InScopeA(a) == (opts.ctx = -1 \/ a.ctx = opts.ctx) /\ a.id > opts.last
      \* what the reader must have been given by now if its stream is still open
      Must == {a \in A : /\ InScopeA(a)
                         /\ IF opts.follow
                            THEN (a.kind = "f" /\ ~opts.tail) \/ a.call > rr
                            ELSE a.kind = "f" /\ a.ret < rc /\ ~opts.tail}
      Missing == {a \in Must : a.id \notin DSet}
      Gap == {a \in Missing : a.id < MaxD}
      MaxHist == IF histSent = {} THEN 0 ELSE Max(histSent)
      \* DESIGN 0.5 #2: an ephemeral frame broadcast while the scan was running is dropped when a stored
      \* frame with a larger id was delivered by the scan
      KnownLoss(a) == a.kind = "e" /\ opts.follow /\ ~opts.tail /\ MaxHist > a.id
      LimitHit == opts.limit > 0 /\ Len(DataSeq) >= opts.limit
      BeforeThresh(p) == {D[j].id : j \in 1..(p - 1)}
  IN
  (IF ~IncSeq(DataIds) THEN {"C03", "C02"} ELSE {})
  \cup (IF ~(DSet \subseteq AIds) THEN {"C03"} ELSE {})
  \cup (IF opts.ctx # -1 /\ \E j \in 1..Len(DataSeq) : DataSeq[j].ctx # opts.ctx THEN {"C06"} ELSE {})
  \cup (IF \E i \in DSet : i <= opts.last THEN {"C03", "C01"} ELSE {})
  \cup (IF DSet \cap EphIds \cap Before # {} THEN {"C09"} ELSE {})
  \cup (IF ~opts.follow /\ DSet \cap EphIds # {} THEN {"C09"} ELSE {})
  \cup (IF opts.tail /\ DSet \cap Before # {} THEN {"C11"} ELSE {})
  \* threshold: exactly one when following from history without a limit, never otherwise
  \cup (IF NThresh > 1 THEN {"C03"} ELSE {})
  \cup (IF NThresh = 1 /\ ~(opts.follow /\ opts.limit = 0 /\ ~opts.tail) THEN {"C03", "C11"} ELSE {})
  \cup (IF NThresh = 0 /\ opts.follow /\ opts.limit = 0 /\ ~opts.tail /\ ~closed /\ q.writers_done THEN {"C03"} ELSE {})
  \cup (IF \E p \in ThreshIdx :
             \/ \E a \in A : a.kind = "f" /\ InScopeA(a) /\ a.ret < rc /\ a.id \notin BeforeThresh(p)
             \/ \E j \in 1..(p - 1) : D[j].kind = "e" /\ ~Synthetic(D[j].topic)
        THEN {"C03"} ELSE {})
  \cup (IF NPulse > 0 /\ ~opts.heartbeat THEN {"C11"} ELSE {})
  \* limit
  \cup (IF opts.limit > 0 /\ Len(DataSeq) > opts.limit THEN {"C11"} ELSE {})
  \cup (IF LimitHit /\ ~closed THEN {"C11"} ELSE {})
  \cup (IF opts.follow /\ opts.limit > 0 /\ closed /\ ~LimitHit /\ ~LagPossible THEN {"C11"} ELSE {})
  \cup (IF ~opts.follow /\ ~closed THEN {"C11", "C01"} ELSE {})
  \* never past a frame that was not delivered; complete while open
  \cup (IF \E a \in Gap : ~KnownLoss(a) THEN {"C03", "C11"} ELSE {})
  \cup (IF q.writers_done /\ ~closed /\ \E a \in Missing \ Gap : ~KnownLoss(a) THEN {"C03"} ELSE {})
  \cup (IF ~opts.follow /\ closed /\ ~LimitHit /\ Missing # {} THEN {"C01", "C03"} ELSE {})
  \* content is there when the frame is delivered
  \cup (IF \E j \in 1..Len(D) : ~D[j].cas THEN {"C10"} ELSE {})

ReaderKnown ==
  IF rc = 0 THEN {} ELSE
  LET DSet == {D[j].id : j \in {j \in 1..Len(D) : ~Synthetic(D[j].topic)}}
      MaxHist == IF histSent = {} THEN 0 ELSE Max(histSent)
  IN IF opts.follow /\ ~opts.tail /\
        \E a \in A : a.kind = "e" /\ a.call > rr /\ a.id \notin DSet /\ MaxHist > a.id
           /\ (opts.ctx = -1 \/ a.ctx = opts.ctx) /\ a.id > opts.last
     THEN {"C03-ephemeral-dropped"} ELSE {}

PollVerdict(q) ==
  LET StoredA == {a \in A : a.kind = "f"}
      EphIds == {a.id : a \in {a \in A : a.kind = "e"}}
      seen == UNION {ToSet(polls[k].ids) : k \in 1..Len(polls)}
      plast == IF seen = {} THEN 0 ELSE Max(seen)
      final == {q.stored[j].id : j \in 1..Len(q.stored)}
      PollMiss(k) == LET ps == ToSet(polls[k].ids) IN
                     \E a \in StoredA : a.ret < polls[k].call /\ a.id > polls[k].last /\ a.id \notin ps
  IN  (IF \E k \in 1..Len(polls) : ~IncSeq(polls[k].ids) THEN {"C02", "C01"} ELSE {})
      \cup (IF \E k \in 1..Len(polls) : Len(polls[k].ids) > 0 /\ polls[k].ids[1] <= polls[k].last THEN {"C02", "C01"} ELSE {})
      \cup (IF \E k \in 1..Len(polls) : PollMiss(k) THEN {"C02", "C01"} ELSE {})
      \cup (IF seen \cap EphIds # {} THEN {"C09"} ELSE {})
      \cup (IF \E k \in 1..Len(polls) : \E t \in polls[k].topics : Synthetic(t) THEN {"C11"} ELSE {})
      \cup (IF \E j \in 1..Len(q.stored) : Synthetic(q.stored[j].topic) THEN {"C11"} ELSE {})
      \* the stream only grows at its end: nothing at or below the poller's position that it has not seen
      \cup (IF \E i \in final : i <= plast /\ i \notin seen THEN {"C02"} ELSE {})
      \cup (IF q.writers_done /\ \E a \in StoredA : a.id \notin final THEN {"C02", "C01"} ELSE {})
      \cup (IF final \cap EphIds # {} THEN {"C09"} ELSE {})

Report(v) == IF v = {} THEN TRUE
             ELSE PrintT("VIOL " \o ToJson([props |-> v, b |-> s, l |-> l, e |-> E.e]))

Quiescent ==
  /\ Is("quiescent")
  /\ LET v == ReaderVerdict(E) \cup PollVerdict(E) IN
     /\ Report(v)
     /\ bad' = bad \cup v
     /\ known' = known \cup ReaderKnown
  /\ nq' = nq + 1
  /\ UNCHANGED <<s, pend, A, opts, rc, rr, B, D, closed, polls, pcall, histSent>>

Died ==
  /\ Is("harness_died")
  /\ PrintT("TOOLERR " \o ToJson([b |-> E.s]))
  /\ UNCHANGED <<s, pend, A, opts, rc, rr, B, D, closed, polls, pcall, histSent, bad, known, nq>>

Other ==
  /\ l <= Len(Rec)
  /\ E.e \notin {"reset", "scenario", "w.call", "w.ret", "r.call", "r.ret", "r.recv", "r.closed", "p.call", "p.ret",
                 "hist.sent", "quiescent", "harness_died"}
  /\ l' = l + 1
  /\ UNCHANGED <<s, pend, A, opts, rc, rr, B, D, closed, polls, pcall, histSent, bad, known, nq>>

Next == Reset \/ Scenario \/ WCall \/ WRet \/ RCall \/ RRet \/ RRecv \/ RClosed \/ PCall \/ PRet \/ HistSent
        \/ Quiescent \/ Died \/ Other
Spec == Init /\ [][Next]_vars

Done == l = Len(Rec) + 1
Final == Done => PrintT("VERDICT " \o ToJson([bad |-> bad, known |-> known, events |-> Len(Rec), scenarios |-> nq]))
Consumed == IF TLCGet("stats").diameter = Len(Rec) + 1 THEN TRUE
            ELSE PrintT(<<"STUCK", TLCGet("stats").diameter, Len(Rec)>>) /\ FALSE
=============================================================================

SPECIFICATION Spec
INVARIANT Final
POSTCONDITION Consumed
CHECK_DEADLOCK FALSE

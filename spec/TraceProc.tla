----------------------------- MODULE TraceProc -----------------------------
(***************************************************************************)
(* Observer for the processors group (DESIGN 5 "C14-C19: how processor     *)
(* logs are judged", Appendix C ObsProc).  The trace is the stream itself:  *)
(* one `frame` event per stored frame, in id order (ids are dense ranks),   *)
(* with context index, topic split into name + suffix, the stamps           *)
(* handler_id / command_id / source_id / frame_id as ranks (0 = absent,     *)
(* -1 = an id that is not in the stream), error flag, ttl, and the CAS      *)
(* content mapped back to the token the script was built to produce.        *)
(* Client frames carry the index of the client action and, for register /   *)
(* define / spawn, the script kind; the kinds' spec fields come with the    *)
(* `scenario` header.  The history is accumulated and judged once, at the   *)
(* `quiescent` event, from the frame list only: nothing here depends on     *)
(* wall-clock time or on which thread ran when.                             *)
(*                                                                          *)
(* Every rule yields records [p |-> properties, w |-> rule, x |-> frame].   *)
(* Rules of class "missing" (w starts with "missing") demand a frame that   *)
(* is absent; the runner only ends a run when nothing is owed or after its  *)
(* long timeout, and tools/groups/proc.py refuses (tool error) a "missing"  *)
(* verdict on a run whose wait did not time out.                            *)
(* Known defects of the pinned code are recognised by their specific        *)
(* pattern and reported as `known` keys; anything else is a violation.      *)
(***************************************************************************)
EXTENDS Integers, Sequences, FiniteSets, SequencesExt, FiniteSetsExt, TLC, Json, IOUtils

Rec == ndJsonDeserialize(IOEnv.TRACE)

VARIABLES l, s, K, F, bad, known, nq, nfr

vars == <<l, s, K, F, bad, known, nq, nfr>>

Init == l = 1 /\ s = 0 /\ K = <<>> /\ F = <<>> /\ bad = {} /\ known = {} /\ nq = 0 /\ nfr = 0

E == Rec[l]
Is(e) == l <= Len(Rec) /\ E.e = e /\ l' = l + 1

Reset == Is("reset") /\ s' = E.s /\ K' = <<>> /\ F' = <<>> /\ UNCHANGED <<bad, known, nq, nfr>>
Scenario == Is("scenario") /\ K' = E.kinds /\ UNCHANGED <<s, F, bad, known, nq, nfr>>
Frame == Is("frame") /\ F' = Append(F, E) /\ nfr' = nfr + 1 /\ UNCHANGED <<s, K, bad, known, nq>>

-----------------------------------------------------------------------------
(* vocabulary over the accumulated frame list *)
N == Len(F)
Idx == 1..N
V(p, w, x) == [p |-> p, w |-> w, x |-> x]
MinOr(S, d) == IF S = {} THEN d ELSE Min(S)
MaxOr(S, d) == IF S = {} THEN d ELSE Max(S)
Sorted(S) == SetToSortSeq(S, <)

KindOf(i) == K[F[i].kind]
HasKind(i) == F[i].act > 0 /\ F[i].kind # ""
Proc(i) == F[i].act = 0                        \* written by a processor (or the runner's xs.context)

\* q is the quiescent event
MaxInc(q) == Len(q.restarts)
\* incarnation j ended at a point where nothing was owed (the last one always: the runner waited)
\* A stream that outgrew the scenario's bound (a processor feeding itself) is cut by the runner: the
\* prefix is judged, nothing absent is demanded.
Settled(q, j) == IF q.overflow THEN FALSE ELSE IF j >= MaxInc(q) THEN TRUE ELSE q.restarts[j + 1].quiet

\* before the restart that ended incarnation j the runner waited until nothing was owed, or for the whole long timeout
Patient(q, j) == ~q.overflow /\ j < MaxInc(q) /\ q.restarts[j + 1].patient

Reacts(k, i) == k.react = "all" \/ F[i].name = "t"
Fails(k, i) == k.fail_on # "" /\ F[i].topic = k.fail_on
Synth(t) == t \in {"xs.threshold", "xs.pulse"}

-----------------------------------------------------------------------------
(* HANDLERS: C14 C15 C16, handler part of C17 and C06 *)
HRegs == {i \in Idx : F[i].suf = "register" /\ HasKind(i) /\ KindOf(i).fam = "h"}

\* A registration that reaches the serve loop while it is still replaying history (right after a
\* start) is compacted like history: a later .register of the name makes it a replaced
\* registration that is never started.  The trace cannot tell where the replay ended, only that a
\* handler-stamped frame of the incarnation proves the loop was live before it.
Superseded(r) ==
  \E i \in Idx : /\ i > r /\ F[i].suf = "register" /\ F[i].name = F[r].name /\ F[i].inc = F[r].inc
                 /\ ~\E x \in Idx : x < i /\ F[x].inc = F[r].inc /\ Proc(x) /\ F[x].hid # 0

\* one registration r in one incarnation j
HInst(q, r, j) ==
  LET k == KindOf(r)
      c == F[r].ctx
      n == F[r].name
      j0 == F[r].inc
      tail == k.resume = "tail"
      St == {i \in Idx : F[i].hid = r /\ Proc(i) /\ F[i].inc = j}
      Ann == {i \in St : F[i].name = n /\ F[i].suf = "registered"}
      Unr == {i \in St : F[i].name = n /\ F[i].suf = "unregistered"}
      Out == St \ (Ann \cup Unr)
      a == MinOr(Ann, N + 1)
      OwnReg(i) == F[i].name = n /\ F[i].suf \in {"register", "unregister"}
      InRange(i) == /\ F[i].inc <= j
                    /\ IF tail THEN i > r /\ F[i].inc >= j
                       ELSE IF k.resume = "after" THEN i > k.after ELSE TRUE
      \* what the instance is shown, in id order
      \* (its own outputs are not shown to it - except a .register / .unregister of its own name that it
      \* appended itself: the lifecycle check in Handler::serve comes before the own-output filter)
      Vis == {i \in Idx : F[i].ctx = c /\ (F[i].hid # r \/ OwnReg(i)) /\ InRange(i) /\ ~(OwnReg(i) /\ i <= r)}
      u == IF Unr = {} THEN 0 ELSE Min(Unr)              \* the .unregistered frame
      End == IF u # 0 /\ F[u].fid >= 1 THEN F[u].fid ELSE N + 1
      Trigs == {F[o].fid : o \in Out}
      KTrigs == Trigs \cap Idx
      \* (functions, not operators: TLC evaluates a function value once)
      GrpF == [t \in Trigs \cup {-1} |-> {o \in Out : F[o].fid = t}]
      Grp(t) == IF t \in DOMAIN GrpF THEN GrpF[t] ELSE {}
      ProcSet == KTrigs \cup (IF u # 0 /\ F[u].fid >= 1 THEN {F[u].fid} ELSE {})
      SeenLB == IF tail THEN MinOr(ProcSet, N + 1) ELSE 0
      Seen == {i \in Vis : i >= SeenLB}
      Must == IF tail THEN {i \in Vis : i > a} ELSE Vis
      StopC == {i \in Vis : OwnReg(i) \/ (Reacts(k, i) /\ Fails(k, i))}
      Owed == {i \in StopC : i \in Seen \/ i \in Must}
      exp == SelectSeq(k.outs, LAMBDA o : o.stored)
      \* position of a group in the instance's sequence of invocations that produced output
      MaxTrig == MaxOr(KTrigs, 0)
      FirstF == [t \in KTrigs |-> Min(GrpF[t])]
      LastF == [t \in KTrigs |-> Max(GrpF[t])]
      FirstOf(t) == FirstF[t]
      SynthFrames == GrpF[-1]
      Firsts == {FirstF[t] : t \in KTrigs} \cup SynthFrames
      PosOf(o) == Cardinality({x \in Firsts : x < o}) + 1
      LaterActivity(i) == MaxTrig > i \/ (u # 0 /\ F[u].fid > i)
      settled == Settled(q, j)
      \* ---- one output frame o, expected descriptor e, trigger t, position pos
      FrameBad(o, e, t, pos) ==
        (IF (IF e.ret THEN F[o].name # n \/ F[o].suf # e.suf ELSE F[o].topic # e.topic)
           THEN {V({"C15"}, "output-topic", o)} ELSE {})
        \cup (IF F[o].ttl # e.ttl THEN {V({"C15"}, "output-ttl", o)} ELSE {})
        \cup (IF F[o].um # e.um THEN {V({"C15"}, "output-meta", o)} ELSE {})
        \cup (IF ~F[o].hash \/ ~F[o].cas THEN {V({"C15", "C10"}, "output-content-missing", o)} ELSE {})
        \cup (IF F[o].c.k # e.k THEN {V({"C15", "C10", "C12"}, "output-content", o)} ELSE {})
        \cup (IF F[o].c.tid # -2 /\ F[o].c.tid # t THEN {V({"C15", "C14"}, "output-content-trigger", o)} ELSE {})
        \cup (IF t >= 1 /\ F[o].c.t # "-" /\ F[o].c.t # F[t].topic THEN {V({"C15", "C14"}, "output-content-topic", o)} ELSE {})
        \cup (IF t = -1 /\ ~Synth(F[o].c.t) THEN {V({"C14"}, "unknown-trigger", o)} ELSE {})
        \cup (IF k.counter /\ F[o].c.n # -1 /\ F[o].c.n # pos THEN {V({"C14"}, "invocation-count", o)} ELSE {})
      GroupBad(t) ==
        LET got == Sorted(Grp(t))
            pos == PosOf(FirstOf(t))
        IN  (IF Len(got) > Len(exp) THEN {V({"C15", "C14"}, "extra-output", got[Len(exp) + 1])} ELSE {})
            \cup UNION {FrameBad(got[x], exp[x], t, pos) : x \in 1..(IF Len(got) < Len(exp) THEN Len(got) ELSE Len(exp))}
            \* a group that can no longer be completed (a later trigger was handled, or the instance
            \* stopped) is wrong for good; the last group of a live instance is owed until quiescence
            \cup (IF Len(got) < Len(exp) /\ (MaxTrig > t \/ u # 0)
                  THEN {V({"C15"}, "incomplete-group", got[Len(got)])} ELSE {})
            \cup (IF Len(got) < Len(exp) /\ ~(MaxTrig > t \/ u # 0) /\ settled
                  THEN {V({"C15"}, "missing-output-of-group", got[Len(got)])} ELSE {})
      Eligible(t) ==
        IF F[t].ctx # c THEN {V({"C14", "C06"}, "foreign-context-trigger", t)}
        ELSE IF F[t].hid = r THEN {V({"C14"}, "own-output-trigger", t)}
        ELSE IF OwnReg(t) THEN {V({"C14", "C16"}, "registration-traffic-trigger", t)}
        ELSE IF tail /\ F[t].inc < j THEN {V({"C14", "C17"}, "historical-trigger-reexecuted", t)}
        ELSE IF t \notin Vis THEN {V({"C14"}, "trigger-before-resume-point", t)}
        ELSE IF ~Reacts(k, t) THEN {V({"C14", "C15"}, "unexpected-output", t)}
        ELSE IF Fails(k, t) THEN {V({"C15"}, "output-of-failed-call", t)}
        ELSE IF t >= End THEN {V({"C16", "C14"}, "processed-after-stop", t)}
        ELSE {}
      \* ---- C17: an instance that was shown a stop condition (a failing trigger, an (un)register of its name) in an earlier
      \* incarnation - it had answered an earlier trigger of that incarnation, so it was subscribed, and the runner was
      \* patient before the restart - does not come back, whatever the stream says about it
      StopPrev == {i \in Idx : F[i].ctx = c /\ F[i].inc < j /\ i > r /\ F[i].hid # r
                                /\ (OwnReg(i) \/ (Reacts(k, i) /\ Fails(k, i))) /\ Patient(q, F[i].inc)}
      OutPrev == {o \in Idx : F[o].hid = r /\ Proc(o) /\ F[o].inc < j /\ F[o].fid >= 1 /\ F[o].fid \in Idx}
      restored == St # {} /\ \E i \in StopPrev : \E o \in OutPrev : F[o].fid < i /\ F[F[o].fid].inc = F[i].inc
      viol ==
        (IF restored THEN {V({"C17", "C16"}, "restored-after-stop", Min(St))} ELSE {}) \cup
        \* ---- stamps and scope of everything the instance wrote
        {V({"C15", "C06"}, "output-context", i) : i \in {i \in St : F[i].ctx # c}}
        \cup {V({"C15"}, "stamp-frame-id-missing", o) : o \in {o \in Out : F[o].fid = 0}}
        \cup {V({"C14", "C15"}, "output-before-trigger", o) : o \in {o \in Out : F[o].fid >= 1 /\ o < F[o].fid}}
        \* ---- announcements
        \cup (IF Cardinality(Ann) > 1 THEN {V({"C16", "C17"}, "registered-twice", Max(Ann))} ELSE {})
        \cup (IF Cardinality(Unr) > 1 THEN {V({"C16"}, "unregistered-twice", Max(Unr))} ELSE {})
        \cup (IF Ann = {} /\ (Out # {} \/ Unr # {}) /\ settled /\ k.valid THEN {V({"C16"}, "missing-registered", r)} ELSE {})
        \cup (IF j = j0 /\ Ann = {} /\ Unr = {} /\ settled /\ k.valid /\ ~Superseded(r) THEN {V({"C16"}, "missing-registered", r)} ELSE {})
        \* ---- the stop: first (un)register of the name / failing trigger it is shown; final
        \cup (IF u # 0 THEN {V({"C16"}, "output-after-unregistered", o) : o \in {o \in Out : o > u}} ELSE {})
        \cup (IF u # 0 /\ k.valid /\ F[u].fid = 0 THEN {V({"C16"}, "valid-script-rejected", u)} ELSE {})
        \cup (IF u # 0 /\ F[u].fid = -1 THEN {V({"C16"}, "unregistered-names-unknown-frame", u)} ELSE {})
        \cup (IF u # 0 /\ F[u].fid >= 1 /\ F[u].fid \notin StopC /\ OwnReg(F[u].fid) /\ F[u].fid <= r
              THEN {V({"C14", "C16"}, "stopped-by-old-registration-traffic", u)} ELSE {})
        \cup (IF u # 0 /\ F[u].fid >= 1 /\ F[u].fid \notin StopC /\ ~(OwnReg(F[u].fid) /\ F[u].fid <= r)
              THEN {V({"C16", "C15"}, "spurious-stop", u)} ELSE {})
        \cup (IF u # 0 /\ F[u].fid >= 1 /\ F[u].fid \in StopC /\ F[u].err # ~OwnReg(F[u].fid)
              THEN {V({"C16", "C15"}, "unregistered-error-flag", u)} ELSE {})
        \cup {V({"C16"}, "stop-ignored", i) : i \in {i \in StopC \cap Seen : i < End /\ LaterActivity(i)}}
        \cup {V(IF OwnReg(i) THEN {"C16"} ELSE {"C16", "C15"}, "missing-unregistered", i) :
                 i \in {i \in Owed : i < End /\ ~LaterActivity(i) /\ u = 0 /\ settled /\ Ann # {}}}
        \* ---- invocations: eligible, in order, one at a time, complete groups
        \cup UNION {Eligible(t) : t \in KTrigs}
        \cup {V({"C14"}, "trigger-order", t2) : t2 \in {t2 \in KTrigs : \E t1 \in KTrigs : t1 < t2 /\ LastF[t1] > FirstF[t2]}}
        \cup {V({"C14"}, "interleaved-invocations", x) : x \in {x \in SynthFrames : \E t \in KTrigs : FirstF[t] < x /\ x < LastF[t]}}
        \cup (IF k.group > 0 THEN UNION {GroupBad(t) : t \in KTrigs} ELSE {})
        \cup (IF k.group = 0 /\ Out # {} THEN {V({"C15"}, "unexpected-output", Min(Out))} ELSE {})
        \cup (IF k.group > 0 /\ SynthFrames # {} /\ Len(exp) = 1
              THEN UNION {FrameBad(x, exp[1], -1, PosOf(x)) : x \in SynthFrames} ELSE {})
        \cup (IF Cardinality({x \in SynthFrames : F[x].c.t = "xs.threshold"}) > (IF tail THEN 0 ELSE 1)
              THEN {V({"C14"}, "threshold-invocations", Max(SynthFrames))} ELSE {})
        \cup (IF k.pulse = 0 /\ \E x \in SynthFrames : F[x].c.t = "xs.pulse" THEN {V({"C14"}, "pulse-not-asked", Max(SynthFrames))} ELSE {})
        \cup (IF k.react # "all" /\ \E x \in SynthFrames : ~(k.pulse > 0 /\ F[x].c.t = "xs.pulse")
              THEN {V({"C14", "C15"}, "unknown-trigger", Min(SynthFrames))} ELSE {})
        \cup (IF k.pulse > 0 /\ Cardinality({x \in SynthFrames : F[x].c.t = "xs.pulse"}) > k.maxpulse
              THEN {V({"C14"}, "pulse-invocations", Max(SynthFrames))} ELSE {})
        \* ---- completeness: every reacting frame it was shown (Seen) or must be shown (Must)
        \cup (IF k.group > 0 /\ Ann # {} THEN
                LET Need == {i \in Seen \cup Must : Reacts(k, i) /\ i \notin StopC /\ i < End /\ Grp(i) = {}}
                IN  {V({"C14"}, "trigger-skipped", i) : i \in {i \in Need : i \in Seen /\ LaterActivity(i)}}
                    \cup {V({"C14", "C15", "C16"}, "missing-invocation", i) :
                            i \in {i \in Need : settled /\ ((i \in Seen /\ ~LaterActivity(i)) \/ (i \notin Seen /\ SeenLB > N))}}
              ELSE {})
        \* ---- C06 script-visible isolation: ids listed by .cat / .head inside the script
        \cup (IF k.cat THEN UNION {
                LET x == F[o].c.x  xs == {x[y] : y \in 1..Len(x)}  m == MaxOr(xs, 0) IN
                  (IF \E y \in xs : y < 1 \/ F[y].ctx # c THEN {V({"C06"}, "cat-foreign-context", o)} ELSE {})
                  \cup (IF xs \cap Idx # {i \in Idx : F[i].ctx = c /\ i <= m} \/ m < F[o].fid \/ m >= o
                        THEN {V({"C06", "C01"}, "cat-not-the-context-history", o)} ELSE {})
                  \cup (IF F[o].c.hx # -2 /\ (F[o].c.hx < 1 \/ F[F[o].c.hx].ctx # c \/ F[F[o].c.hx].topic # F[F[o].fid].topic)
                        THEN {V({"C06", "C05"}, "head-foreign-context", o)} ELSE {})
                : o \in {o \in Out : F[o].fid >= 1 /\ F[o].c.k = "ret"}} ELSE {})
      \* ---- known defects, by their specific pattern
      kn ==
        \* DESIGN 6 #9b: a .register / .unregister of the name appended before this instance's
        \* .registered is never shown to it (tail subscription starts late): it stays active
        (IF tail /\ Ann # {} /\ \E i \in StopC : OwnReg(i) /\ i < a /\ i \notin Seen /\ i < End /\ F[i].suf = "register"
           THEN {"C16-double-register"} ELSE {})
        \cup (IF tail /\ Ann # {} /\ \E i \in StopC : OwnReg(i) /\ i < a /\ i \notin Seen /\ i < End /\ F[i].suf = "unregister"
           THEN {"C16-unregister-in-flight"} ELSE {})
        \* DESIGN 6 #9: frames right after .registered not shown although later ones are
        \cup (IF tail /\ Ann # {} /\ SeenLB <= N
                 /\ \E i \in Must : i < SeenLB /\ i < End /\ (i \in StopC \/ (k.group > 0 /\ Reacts(k, i)))
           THEN {"C16-announce-before-subscribe"} ELSE {})
  IN [v |-> viol, k |-> kn, ann |-> Ann, unr |-> Unr, act |-> St # {}]

HReg(q, r) ==
  LET k == KindOf(r)
      c == F[r].ctx
      n == F[r].name
      j0 == F[r].inc
      Incs == j0..MaxInc(q)
      IFun == [j \in Incs |-> HInst(q, r, j)]      \* a function: each instance is analysed once
      I(j) == IFun[j]
      All == {i \in Idx : F[i].hid = r /\ Proc(i)}
      AllUnr == {i \in All : F[i].name = n /\ F[i].suf = "unregistered"}
      AllAnn == {i \in All : F[i].name = n /\ F[i].suf = "registered"}
      \* restored in incarnation j (> j0)?  MUST if announced before and never stopped
      StoppedBefore(j) == \E i \in AllUnr : F[i].inc < j
      AnnouncedBefore(j) == \E i \in AllAnn : F[i].inc < j
      \* DESIGN 6 #10: compaction keyed by name only - a later register of the same name in
      \* another context (whatever became of it) hides this one at every later start
      Shadowed(j) == \E i \in Idx : i > r /\ F[i].suf = "register" /\ F[i].name = n /\ F[i].ctx # c /\ F[i].inc < j
      \* a later .register of the same (context, name) replaced it, whatever became of that one
      Replaced(j) == \E i \in Idx : i > r /\ F[i].suf = "register" /\ F[i].name = n /\ F[i].ctx = c /\ F[i].inc < j
      \* a client .unregister of the (context, name) from an earlier incarnation that nobody answered
      PendingUnreg(j) == \E i \in Idx : i > r /\ F[i].suf = "unregister" /\ F[i].name = n /\ F[i].ctx = c /\ F[i].inc < j
      Owes(j) == j > j0 /\ AnnouncedBefore(j) /\ ~StoppedBefore(j) /\ ~Replaced(j) /\ ~PendingUnreg(j) /\ Settled(q, j) /\ I(j).ann = {}
      \* found by TLC on XsHandlers (CompactClientUnreg): the server died between a client's .unregister
      \* and the instance's .unregistered; the start-up compaction ignores client .unregister frames
      \* (they carry no handler id), so the unregistered handler is started again
      LostAtCrash(j) == /\ j > j0 /\ ~StoppedBefore(j) /\ ~Replaced(j) /\ I(j).act
                        /\ \E i \in Idx : /\ i > r /\ F[i].suf = "unregister" /\ F[i].name = n /\ F[i].ctx = c /\ F[i].inc < j
                                           /\ ~Settled(q, F[i].inc)
                                           /\ \E x \in Idx : x < i /\ F[x].hid = r /\ F[x].suf = "registered" /\ F[x].inc = F[i].inc
      invalid ==
        (IF All \ AllUnr # {} THEN {V({"C16"}, "invalid-script-active", Min(All \ AllUnr))} ELSE {})
        \cup (IF Cardinality(AllUnr) > 1 THEN {V({"C16", "C17"}, "unregistered-twice", Max(AllUnr))} ELSE {})
        \cup (IF AllUnr = {} /\ Settled(q, j0) /\ ~Superseded(r) THEN {V({"C16"}, "missing-unregistered", r)} ELSE {})
        \cup {V({"C16"}, "invalid-script-unregistered-without-error", i) : i \in {i \in AllUnr : ~F[i].err \/ F[i].fid # 0}}
        \cup {V({"C16", "C06"}, "output-context", i) : i \in {i \in All : F[i].ctx # c}}
      valid ==
        UNION {I(j).v : j \in Incs}
        \cup {V({"C17", "C16"}, "stopped-handler-came-back", r) : j \in {j \in Incs : j > j0 /\ StoppedBefore(j) /\ I(j).act}}
        \cup {V({"C17", "C16"}, "replaced-handler-came-back", r) : j \in {j \in Incs : j > j0 /\ Replaced(j) /\ I(j).act}}
        \cup {V({"C17"}, "missing-restored-handler", r) : j \in {j \in Incs : Owes(j) /\ ~Shadowed(j)}}
      kn == UNION {I(j).k : j \in Incs}
            \cup (IF \E j \in Incs : Owes(j) /\ Shadowed(j) THEN {"C17-name-keyed-compaction"} ELSE {})
            \cup (IF \E j \in Incs : LostAtCrash(j) THEN {"C17-unregister-lost-at-crash"} ELSE {})
  IN IF k.valid THEN [v |-> valid, k |-> kn] ELSE [v |-> invalid, k |-> {}]

\* frames stamped with a handler id that is no registration, announcements without stamp
HStray ==
  {V({"C15", "C16"}, "stamp-unknown-handler", i) : i \in {i \in Idx : Proc(i) /\ F[i].hid # 0 /\ F[i].hid \notin HRegs}}
  \cup {V({"C16"}, "announcement-unstamped", i) :
          i \in {i \in Idx : Proc(i) /\ F[i].suf \in {"registered", "unregistered"} /\ F[i].hid = 0}}

-----------------------------------------------------------------------------
(* COMMANDS: C19, command part of C17 *)
Defs == {i \in Idx : F[i].suf = "define" /\ HasKind(i) /\ KindOf(i).fam = "c"}
ValidDefs == {d \in Defs : KindOf(d).valid}
Calls == {i \in Idx : F[i].suf = "call" /\ F[i].act > 0}

CCall(qe, q) ==
  LET n == F[q].name
      c == F[q].ctx
      j == F[q].inc
      \* as coded: the table is keyed by name; as the property reads: by (context, name)
      DCode == MaxOr({d \in ValidDefs : d < q /\ F[d].name = n}, 0)
      DProp == MaxOr({d \in ValidDefs : d < q /\ F[d].name = n /\ F[d].ctx = c}, 0)
      Resp == {i \in Idx : Proc(i) /\ F[i].hid = 0 /\ F[i].fid = q}
      got == Sorted(Resp)
      settled == Settled(qe, j)
      body(d) ==
        LET k == KindOf(d)
            sfx == k.csuffix
            nrecv == Len(k.recv)
            napp == Len(k.cappends)
            total == napp + nrecv + 1
            Term == {i \in Resp : F[i].name = n /\ F[i].suf \in {"complete", "error"}}
            \* position x of a call's output: explicit appends first, then one frame per value - or, for a stream that
            \* appends while it is drained, append and value in turns
            IsApp(x) == IF k.interleave THEN x <= 2 * napp /\ x % 2 = 1 ELSE x <= napp
            AppIdx(x) == IF k.interleave THEN (x + 1) \div 2 ELSE x
            RecvIdx(x) == IF k.interleave THEN x \div 2 ELSE x - napp
            FrameBad(o, x) ==
              (IF IsApp(x) THEN
                 (IF F[o].topic # k.cappends[AppIdx(x)].topic THEN {V({"C19"}, "call-output-order", o)} ELSE {})
                 \cup (IF F[o].c.k # k.cappends[AppIdx(x)].k THEN {V({"C19", "C10", "C12"}, "call-output-content", o)} ELSE {})
               ELSE IF x <= napp + nrecv THEN
                 (IF F[o].name # n \/ ("." \o F[o].suf) # sfx THEN {V({"C19"}, "call-output-order", o)} ELSE {})
                 \cup (IF F[o].ttl # k.cttl THEN {V({"C19"}, "call-output-ttl", o)} ELSE {})
                 \cup (IF F[o].c.k # k.recv[RecvIdx(x)] THEN {V({"C19", "C10", "C12"}, "call-output-content", o)} ELSE {})
                 \cup (IF F[o].name = n /\ ("." \o F[o].suf) = sfx /\ (~F[o].hash \/ ~F[o].cas)
                       THEN {V({"C19", "C10"}, "call-output-content-missing", o)} ELSE {})
               ELSE
                 (IF F[o].name # n \/ F[o].suf # k.terminal THEN {V({"C19"}, "call-terminal", o)} ELSE {})
                 \cup (IF F[o].err # (k.terminal = "error") THEN {V({"C19"}, "call-terminal-error-flag", o)} ELSE {}))
              \cup (IF F[o].c.tid # -2 /\ F[o].c.tid # q THEN {V({"C19"}, "call-output-mixed", o)} ELSE {})
              \cup (IF k.counter /\ F[o].c.n # -1 /\ F[o].c.n # 1 THEN {V({"C19"}, "call-state-leak", o)} ELSE {})
        IN  {V({"C19"}, "call-stamp-definition", i) : i \in {i \in Resp : F[i].cid # d}}
            \cup {V({"C19", "C06"}, "call-output-context", i) : i \in {i \in Resp : F[i].ctx # c}}
            \cup {V({"C19", "C17"}, "call-replayed", i) : i \in {i \in Resp : F[i].inc # j}}
            \cup (IF Cardinality(Term) > 1 THEN {V({"C19"}, "call-two-terminals", Max(Term))} ELSE {})
            \cup (IF Len(got) > total THEN {V({"C19"}, "call-extra-output", got[total + 1])} ELSE {})
            \cup UNION {FrameBad(got[x], x) : x \in 1..(IF Len(got) < total THEN Len(got) ELSE total)}
            \* after the terminal nothing more can come: a short sequence is wrong for good
            \cup (IF Len(got) < total /\ Term # {} THEN {V({"C19"}, "call-output-incomplete", q)} ELSE {})
            \* (a definition made before a restart that no longer answers is also a C17 matter)
            \cup (IF Len(got) < total /\ Term = {} /\ settled
                  THEN {V(IF F[d].inc < j THEN {"C19", "C17"} ELSE {"C19"}, "missing-call-output", q)} ELSE {})
            \cup (IF k.cat THEN UNION {
                    LET x == F[o].c.x  xs == {x[y] : y \in 1..Len(x)}  m == MaxOr(xs, 0)  dc == F[d].ctx IN
                      (IF \E y \in xs : y < 1 \/ F[y].ctx # dc THEN {V({"C06"}, "cat-foreign-context", o)} ELSE {})
                      \cup (IF xs \cap Idx # {i \in Idx : F[i].ctx = dc /\ i <= m} THEN {V({"C06", "C01"}, "cat-not-the-context-history", o)} ELSE {})
                    : o \in {o \in Resp : Len(F[o].c.x) > 0}} ELSE {})
      \* the definition that answers: the caller's own context's (as the property reads, and as the code does since
      \* the table is keyed by (context, name)); a response stamped by another context's definition of the name
      \* is the formerly coded behaviour and is recognised as such (key C19-command-name-keyed)
      ByName == DCode # DProp /\ \E i \in Resp : F[i].cid = DCode
      D == IF ByName THEN DCode ELSE DProp
  IN [v |-> IF D = 0 THEN {V({"C19"}, "undefined-command-answered", i) : i \in Resp} ELSE body(D),
      k |-> IF ByName THEN {"C19-command-name-keyed"} ELSE {}]

CDefs(qe) ==
  UNION {
    LET E1 == {i \in Idx : Proc(i) /\ F[i].cid = d /\ F[i].fid = 0} IN
      IF KindOf(d).valid THEN {V({"C19"}, "valid-definition-rejected", i) : i \in E1}
      ELSE {V({"C19"}, "define-error-shape", i) : i \in {i \in E1 : F[i].name # F[d].name \/ F[i].suf # "error" \/ ~F[i].err \/ F[i].ctx # F[d].ctx}}
           \cup (IF {i \in E1 : F[i].inc = F[d].inc} = {} /\ Settled(qe, F[d].inc) THEN {V({"C19"}, "missing-define-error", d)} ELSE {})
           \cup {V({"C19"}, "define-error-twice", Max({i \in E1 : F[i].inc = j})) :
                   j \in {j \in F[d].inc..MaxInc(qe) : Cardinality({i \in E1 : F[i].inc = j}) > 1}}
           \cup {V({"C19"}, "invalid-definition-used", i) : i \in {i \in Idx : Proc(i) /\ F[i].cid = d /\ F[i].fid # 0}}
    : d \in Defs}

CStray ==
  {V({"C19"}, "stamp-unknown-command", i) : i \in {i \in Idx : Proc(i) /\ F[i].cid # 0 /\ F[i].cid \notin Defs}}
  \cup {V({"C19"}, "response-to-no-call", i) :
          i \in {i \in Idx : Proc(i) /\ F[i].cid # 0 /\ F[i].hid = 0 /\ F[i].fid # 0 /\ F[i].fid \notin Calls}}
  \cup {V({"C19"}, "unstamped-command-frame", i) :
          i \in {i \in Idx : Proc(i) /\ F[i].hid = 0 /\ F[i].cid = 0 /\ F[i].sid = 0 /\ F[i].suf \in {"complete", "error", "recv"}}}

-----------------------------------------------------------------------------
(* GENERATORS: C18, generator part of C17 *)
Spawns == {i \in Idx : F[i].suf = "spawn" /\ HasKind(i) /\ KindOf(i).fam = "g"}
GenFrame(i) == F[i].suf \in {"spawn", "spawn.error"}

GSpawn(qe, g) ==
  LET k == KindOf(g)
      n == F[g].name
      c == F[g].ctx
      j0 == F[g].inc
      St == {i \in Idx : Proc(i) /\ F[i].sid = g}
      Refusals == {i \in St : F[i].suf = "spawn.error"}
      Life(j) == {i \in St : F[i].inc = j /\ F[i].suf # "spawn.error"}
      \* as coded: one table keyed by name; an entry made in this incarnation is never removed
      Holder(j) == \* spawns of the name the serve loop of incarnation j accepted before it met g
        {h \in Spawns : h # g /\ F[h].name = n /\
             IF F[h].inc = j THEN h < g /\ {i \in Idx : F[i].sid = h /\ F[i].suf = "start" /\ F[i].inc = j} # {}
             ELSE F[h].inc < j /\ {i \in Idx : F[i].sid = h /\ F[i].suf = "start" /\ F[i].inc = j} # {}}
      HolderSame == {h \in Holder(j0) : F[h].ctx = c}
      \* a spawn is refused when it has no content or the (context, name) is taken; refused because the NAME is
      \* taken in another context is the formerly coded behaviour (table keyed by name), recognised as such
      ByName == ~k.nocontent /\ ~k.refused /\ HolderSame = {} /\ Holder(j0) # {} /\ Refusals # {}
      refusedAsCoded == k.nocontent \/ k.refused \/ HolderSame # {} \/ ByName
      values == k.values
      nv == Len(values)
      \* the lifecycle grammar over the frames of one incarnation, in id order
      Cyc(j) ==
        LET sq == Sorted(Life(j))
            Starts == {x \in 1..Len(sq) : F[sq[x]].suf = "start"}
            \* index of the start that opens the cycle position x belongs to
            Open(x) == MaxOr({y \in Starts : y <= x}, 0)
            Off(x) == x - Open(x)
        IN  {V({"C18"}, "generator-frame-outside-lifecycle", sq[x]) : x \in {x \in 1..Len(sq) : Open(x) = 0}}
            \cup {V({"C18"}, "generator-unknown-frame", sq[x]) : x \in {x \in 1..Len(sq) : F[sq[x]].suf \notin {"start", "recv", "stop"} \/ F[sq[x]].name # n}}
            \cup {V({"C18"}, "generator-start-before-stop", sq[x]) :
                    x \in {x \in Starts : x > 1 /\ F[sq[x - 1]].suf # "stop"}}
            \cup {V({"C18"}, "generator-after-stop", sq[x]) :
                    x \in {x \in 1..Len(sq) : x > 1 /\ F[sq[x]].suf # "start" /\ F[sq[x - 1]].suf = "stop"}}
            \cup (IF ~k.duplex THEN
                    {V({"C18"}, "generator-recv-content", sq[x]) :
                        x \in {x \in 1..Len(sq) : F[sq[x]].suf = "recv" /\ Open(x) > 0 /\ (Off(x) > nv \/ (Off(x) <= nv /\ F[sq[x]].c.k # values[Off(x)]))}}
                    \cup {V({"C18"}, "generator-stop-before-last-recv", sq[x]) :
                        x \in {x \in 1..Len(sq) : F[sq[x]].suf = "stop" /\ Open(x) > 0 /\ Off(x) # nv + 1}}
                  ELSE {})
            \cup {V({"C18", "C10"}, "generator-recv-content-missing", sq[x]) : x \in {x \in 1..Len(sq) : F[sq[x]].suf = "recv" /\ (~F[sq[x]].hash \/ ~F[sq[x]].cas)}}
      Stops(j) == {i \in Life(j) : F[i].suf = "stop"}
      StartsOf(j) == {i \in Life(j) : F[i].suf = "start"}
      \* duplex: what was echoed must be the sends appended after .start, once, in order.  As the
      \* property reads (C06) only sends of the generator's own context feed it; as coded the reader
      \* follows all contexts and filters by topic only - both are recognised, nothing else
      SendsAfter(j, own) == IF StartsOf(j) = {} THEN <<>> ELSE
        Sorted({i \in Idx : F[i].name = n /\ F[i].suf = "send" /\ i > Min(StartsOf(j)) /\ F[i].inc = j /\ (own => F[i].ctx = c)})
      RecvsOf(j) == Sorted({i \in Life(j) : F[i].suf = "recv"})
      Echoes(recvs, sends) == \A x \in 1..Len(recvs) : x <= Len(sends) /\ F[recvs[x]].c.k = "e:" \o F[sends[x]].c.k
      DupAsProperty(j) == Echoes(RecvsOf(j), SendsAfter(j, TRUE))
      DupAsCoded(j) == Echoes(RecvsOf(j), SendsAfter(j, FALSE))
      DupKnown(j) == k.duplex /\ StartsOf(j) # {} /\ ~DupAsProperty(j) /\ DupAsCoded(j)
      Dup(j) ==
        IF ~k.duplex \/ StartsOf(j) = {} THEN {} ELSE
        LET own == DupAsProperty(j)
            sends == SendsAfter(j, own)
            recvs == RecvsOf(j)
        IN  (IF ~DupAsProperty(j) /\ ~DupAsCoded(j) THEN {V({"C18"}, "duplex-echo-mismatch", recvs[Len(recvs)])} ELSE {})
            \cup (IF Len(recvs) < Len(sends) /\ Settled(qe, j) /\ (DupAsProperty(j) \/ DupAsCoded(j))
                  THEN {V({"C18"}, "missing-duplex-recv", sends[Len(recvs) + 1])} ELSE {})
      \* C17.  As the property reads: the latest spawn of the (context, name), if it was accepted, runs
      \* again.  As coded: the last .spawn / .spawn.error frame of the NAME decides.
      SpawnTraffic(j) == {i \in Idx : F[i].name = n /\ GenFrame(i) /\ F[i].inc < j}
      LatestOfKey(j) == g = MaxOr({h \in Spawns : F[h].name = n /\ F[h].ctx = c /\ F[h].inc < j}, 0)
      AcceptedBefore(j) == \E i \in St : F[i].suf = "start" /\ F[i].inc < j
      CodeRestores(j) == g = MaxOr(SpawnTraffic(j), 0)
      OwesG(j) == j > j0 /\ LatestOfKey(j) /\ AcceptedBefore(j) /\ Settled(qe, j) /\ StartsOf(j) = {}
      restore == {V({"C17"}, "missing-restored-generator", g) : j \in {j \in j0..MaxInc(qe) : OwesG(j) /\ CodeRestores(j)}}
      accepted ==
        {V({"C18", "C06"}, "generator-context", i) : i \in {i \in St : F[i].ctx # c}}
        \cup UNION {Cyc(j) \cup Dup(j) : j \in j0..MaxInc(qe)} \cup restore
        \cup {V({"C18"}, "spawn-error-for-accepted-spawn", i) : i \in Refusals}
        \cup (IF Life(j0) = {} /\ Settled(qe, j0) THEN {V({"C18"}, "missing-start", g)} ELSE {})
        \cup (IF ~k.panics /\ ~k.duplex /\ StartsOf(j0) # {} /\ Settled(qe, j0) /\ Cardinality(Stops(j0)) < qe.cycles
              THEN {V({"C18"}, "missing-stop", g)} ELSE {})
      refused ==
        {V({"C18"}, "refused-spawn-ran", i) : i \in St \ Refusals}
        \cup (IF Cardinality(Refusals) > 1 THEN {V({"C18"}, "spawn-error-twice", Max(Refusals))} ELSE {})
        \cup (IF Refusals = {} /\ Settled(qe, j0) THEN {V({"C18"}, "missing-spawn-error", g)} ELSE {})
        \cup {V({"C18"}, "spawn-error-shape", i) : i \in {i \in Refusals : F[i].name # n \/ F[i].ctx # c \/ ~F[i].reason}}
      \* DESIGN 6 #12: the worker thread panics after .start - no recv, no stop, no spawn.error
      kn == (IF ~refusedAsCoded /\ k.panics /\ \E j \in j0..MaxInc(qe) : StartsOf(j) # {} /\ Stops(j) = {} /\ Settled(qe, j)
             THEN {"C18-generator-worker-panic"} ELSE {})
            \cup (IF \E j \in j0..MaxInc(qe) : OwesG(j) /\ ~CodeRestores(j) /\ F[Max(SpawnTraffic(j))].ctx # c
                  THEN {"C17-generator-name-keyed"} ELSE {})
            \* found by TLC on XsGenerators (CompactByRef): a .spawn.error that refuses an OLDER spawn of the
            \* name but was appended after the accepted one hides the accepted one at the next start
            \cup (IF \E j \in j0..MaxInc(qe) : OwesG(j) /\ ~CodeRestores(j) /\ F[Max(SpawnTraffic(j))].ctx = c
                        /\ F[Max(SpawnTraffic(j))].suf = "spawn.error" /\ F[Max(SpawnTraffic(j))].sid < g
                  THEN {"C17-generator-spawn-error-shadows"} ELSE {})
            \cup (IF \E j \in j0..MaxInc(qe) : DupKnown(j) THEN {"C06-generator-duplex-cross-context-send"} ELSE {})
            \cup (IF ByName THEN {"C17-generator-name-keyed"} ELSE {})
  IN [v |-> IF refusedAsCoded THEN refused ELSE accepted, k |-> kn]

GStray ==
  {V({"C18"}, "stamp-unknown-generator", i) : i \in {i \in Idx : Proc(i) /\ F[i].sid # 0 /\ F[i].sid \notin Spawns}}

-----------------------------------------------------------------------------
(* Ephemeral frames are never in the stream; q.ephs is what a follower of all contexts inside the server saw. The    *)
(* scenarios' clients never append ephemeral frames, so each of them was written by a processor: it carries that     *)
(* processor's stamp (C15 C18 C19) and lies in the context the processor writes to (C06): a handler's own context,  *)
(* the context of the call for a command, the context of the spawn for a generator.                                 *)
EphStray(q) ==
  UNION {
    LET x == q.ephs[y] IN
      (IF x.hid = 0 /\ x.cid = 0 /\ x.sid = 0 THEN {V({"C15", "C06"}, "unstamped-ephemeral-frame", 0)} ELSE {})
      \cup (IF x.hid >= 1 /\ x.hid <= N /\ F[x.hid].ctx # x.ctx THEN {V({"C15", "C06"}, "ephemeral-output-context", x.hid)} ELSE {})
      \cup (IF x.cid >= 1 /\ x.fid >= 1 /\ x.fid <= N /\ F[x.fid].ctx # x.ctx THEN {V({"C19", "C06"}, "ephemeral-output-context", x.fid)} ELSE {})
      \cup (IF x.sid >= 1 /\ x.sid <= N /\ F[x.sid].ctx # x.ctx THEN {V({"C18", "C06"}, "ephemeral-output-context", x.sid)} ELSE {})
    : y \in 1..Len(q.ephs)}

Verdict(q) ==
  LET H == [r \in HRegs |-> HReg(q, r)]
      C == [c \in Calls |-> CCall(q, c)]
      G == [g \in Spawns |-> GSpawn(q, g)]
  IN [v |-> UNION {H[r].v : r \in HRegs} \cup HStray \cup EphStray(q)
            \cup UNION {C[c].v : c \in Calls} \cup CDefs(q) \cup CStray
            \cup UNION {G[g].v : g \in Spawns} \cup GStray,
      k |-> UNION {H[r].k : r \in HRegs} \cup UNION {C[c].k : c \in Calls} \cup UNION {G[g].k : g \in Spawns}]

Report(vs, q) ==
  \A v \in vs : PrintT("VIOL " \o ToJson([props |-> v.p, b |-> s, w |-> v.w, x |-> v.x, l |-> l, timeout |-> q.timeout]))

Quiescent ==
  /\ Is("quiescent")
  /\ LET r == Verdict(E) IN
     /\ Report(r.v, E)
     /\ (IF r.k # {} THEN PrintT("KNOWN " \o ToJson([b |-> s, keys |-> r.k])) ELSE TRUE)
     /\ bad' = bad \cup UNION {v.p : v \in r.v}
     /\ known' = known \cup r.k
  /\ nq' = nq + 1
  /\ UNCHANGED <<s, K, F, nfr>>

Died ==
  /\ Is("harness_died")
  /\ PrintT("TOOLERR " \o ToJson([b |-> E.s]))
  /\ UNCHANGED <<s, K, F, bad, known, nq, nfr>>

Other ==
  /\ l <= Len(Rec)
  /\ E.e \notin {"reset", "scenario", "frame", "quiescent", "harness_died"}
  /\ l' = l + 1
  /\ UNCHANGED <<s, K, F, bad, known, nq, nfr>>

Next == Reset \/ Scenario \/ Frame \/ Quiescent \/ Died \/ Other
Spec == Init /\ [][Next]_vars

Done == l = Len(Rec) + 1
Final == Done => PrintT("VERDICT " \o ToJson([bad |-> bad, known |-> known, events |-> Len(Rec), scenarios |-> nq, frames |-> nfr]))
Consumed == IF TLCGet("stats").diameter = Len(Rec) + 1 THEN TRUE
            ELSE PrintT(<<"STUCK", TLCGet("stats").diameter, Len(Rec)>>) /\ FALSE
=============================================================================

SPECIFICATION Spec
CONSTANT Mode = "trace"
INVARIANT Final
CHECK_DEADLOCK FALSE

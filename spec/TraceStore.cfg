SPECIFICATION Spec
CONSTANT W = 1024
INVARIANT Final
POSTCONDITION Consumed
CHECK_DEADLOCK FALSE

SPECIFICATION Spec
CONSTANT W = 64
INVARIANT Final
POSTCONDITION Consumed
CHECK_DEADLOCK FALSE

----------------------------- MODULE TraceStore -----------------------------
(***************************************************************************)
(* Observer for recorded executions of the real store (DESIGN 2.2 B).      *)
(* It consumes one observable event per step - the calls and results of    *)
(* append / import / remove / read / get / head / wait_for_gc / reopen,    *)
(* the clock - keeps the ghosts the properties talk about and judges every *)
(* result with the XsProps operators that TLC also checks on the code      *)
(* layer (XsStore).  The only nondeterminism the properties leave open -   *)
(* which expired / evictable frames the collector has already taken - is   *)
(* resolved lazily from the observation (gone), so validation is linear.   *)
(* A violated statement puts its property id into bad and is reported with *)
(* the behaviour number and the event index.                               *)
(***************************************************************************)
EXTENDS XsProps, Json, IOUtils

Rec == ndJsonDeserialize(IOEnv.TRACE)

VARIABLES l,        \* next event
          b,        \* behaviour number (reset events)
          g,        \* ghost record of XsProps
          met,      \* expired ids walked past by reads since the last drain
          owed,     \* (ctx, topic) pairs with a head check pending
          lost,     \* pairs whose pending check was dropped by a reopen (known deviation)
          imported,
          src,      \* snapshot of the source store during an export/import transfer
          bad,      \* property ids violated so far (whole file)
          known     \* known findings exercised

tvars == <<l, b, g, met, owed, lost, imported, src, bad, known>>

G0 == [acc |-> <<>>, removed |-> {}, gone |-> {}, clock |-> 1, headKs |-> [p \in {} |-> {}],
       evictable |-> {}, eph |-> {}, lastApp |-> 0,
       \* ids of context registrations whose import was refused (C20: a refused import leaves nothing behind)
       refusedReg |-> {}]

Init ==
  /\ l = 1 /\ b = 0 /\ g = G0 /\ met = {} /\ owed = {} /\ lost = {} /\ imported = {}
  /\ src = <<>> /\ bad = {} /\ known = {}

E == Rec[l]
Is(e) == l <= Len(Rec) /\ E.e = e /\ l' = l + 1

Report(v) == IF v = {} THEN TRUE
             ELSE PrintT("VIOL " \o ToJson([props |-> v, b |-> b, l |-> l, e |-> E.e]))
(* during an export/import transfer every loss or disagreement in the target is also a C20 matter *)
WithXfer(v) == IF src # <<>> /\ v \cap {"C01", "C05", "C07", "C08"} # {} THEN v \cup {"C20"} ELSE v
Judge(v) == Report(WithXfer(v)) /\ bad' = bad \cup WithXfer(v)

(* C13: the HTTP rendering of the result (status 0: the operation went through the Store API) *)
Is4xx(n) == n >= 400 /\ n <= 499
Is2xx(n) == n >= 200 /\ n <= 299
\* (`good` is the number the pinned code answers with; what the property fixes is the class)
HttpOk(st, ok, good) == IF st = 0 \/ (ok /\ Is2xx(st)) \/ (~ok /\ Is4xx(st)) THEN {} ELSE {"C13"}

(* C13 (and C12 when the request was built by the command line client): the front end's answer is the *)
(* answer the Store API gives to the same question in the same state (E.same, established by the harness *)
(* by asking again past the front end; nothing runs in between)                                          *)
\* ("nu": the commands xs gives to scripts - what a script reads and writes through them is what the store holds:  *)
\*  C06 names `.cat` / `.head` inside scripts, C12 the values crossing into nu and back)                           *)
FrontFault == IF E.via = "cli" THEN {"C13", "C12"} ELSE IF E.via = "nu" THEN {"C06", "C12"} ELSE {"C13"}
\* (status -3: what the front end printed does not parse as frames at all)
FrontEnd == IF E.via = "api" THEN {} ELSE IF E.status = -3 \/ ~E.same THEN FrontFault ELSE {}

ReEvict(h) == [h EXCEPT !.evictable = h.evictable \cup EvictableNow(h)]

Reset ==
  /\ Is("reset")
  /\ b' = E.b /\ g' = G0 /\ met' = {} /\ owed' = {} /\ lost' = {} /\ imported' = {} /\ src' = <<>>
  /\ UNCHANGED <<bad, known>>

EvAppend ==
  /\ Is("append")
  /\ Judge(IF ~E.front
           \* refused by the front end, accepted by the Store API a moment later: the front end's fault alone
           THEN FrontFault
           ELSE LET v == AppendVerdict(g, E.ctx, E.topic, E.ttl, E.meta, E.hash, E.ok, E.id, FrameOf(E.f)) IN
                \* what a front end hands to the store is what it was asked to append
                v \cup HttpOk(E.status, E.ok, 200)
                  \* an append accepted into a context nothing registers, whose registration was offered by a refused import:
                  \* that import was not rejected whole
                  \cup (IF E.ok /\ E.topic # XC /\ ~MayBeUsable(g, E.ctx) /\ E.ctx \in g.refusedReg THEN {"C20"} ELSE {})
                  \cup (IF E.via # "api" /\ E.ok /\ "C12" \in v THEN FrontFault ELSE {}))
  /\ IF ~E.ok THEN UNCHANGED <<g, owed>>
     ELSE LET f == FrameOf(E.f) IN
          IF f.ttl = Eph
          THEN /\ g' = [g EXCEPT !.eph = @ \cup {E.id}, !.lastApp = E.id]
               /\ UNCHANGED owed
          ELSE /\ g' = ReEvict([g EXCEPT !.acc = Put(@, E.id, f), !.lastApp = E.id,
                                         !.headKs = IF f.ttl.k = "head" THEN AddHK(@, f.ctx, f.topic, f.ttl.n) ELSE @])
               /\ owed' = IF f.ttl.k = "head" THEN owed \cup {<<f.ctx, f.topic>>} ELSE owed
  /\ UNCHANGED <<b, met, lost, imported, src, known>>

EvImport ==
  /\ Is("import")
  /\ LET f == FrameOf(E.f)
         id == E.f.id
         nul == f.topic \in NulTopics
     IN /\ Judge(ImportVerdict(g, id, f, E.ok) \cup HttpOk(E.status, E.ok, 200) \cup FrontEnd)
        /\ IF E.ok
           THEN \* (an id once handed out for an ephemeral append may come back as an imported, stored frame)
                /\ g' = ReEvict([g EXCEPT !.acc = Put(@, id, f), !.removed = @ \ {id}, !.gone = @ \ {id}, !.eph = @ \ {id}])
                /\ imported' = imported \cup {id}
                /\ owed' = owed \ {<<f.ctx, f.topic>>}
                /\ lost' = lost \ {<<f.ctx, f.topic>>}
                \* whatever was owed to the collector under this id concerned the frame that was there before
                /\ met' = IF id \in Present(g) /\ g.acc[id] = f THEN met ELSE met \ {id}
           ELSE /\ g' = IF f.topic = XC /\ f.ctx = Z THEN [g EXCEPT !.refusedReg = @ \cup {id}] ELSE g
                /\ UNCHANGED <<imported, owed, lost, met>>
  /\ UNCHANGED <<b, src, known>>

EvRemove ==
  /\ Is("remove")
  /\ Judge(HttpOk(E.status, TRUE, 204) \cup FrontEnd)
  /\ g' = IF E.id \in DOMAIN g.acc THEN [g EXCEPT !.removed = @ \cup {E.id}] ELSE g
  /\ UNCHANGED <<b, met, owed, lost, imported, src, known>>

EvTick ==
  /\ Is("tick")
  /\ g' = [g EXCEPT !.clock = @ + E.n]
  /\ UNCHANGED <<b, met, owed, lost, imported, src, bad, known>>

(* `tail` without `follow`: there is no historical replay and no live side, the read is empty *)
EvReadTail ==
  /\ Is("read") /\ E.tail
  /\ Judge((IF E.res = <<>> THEN {} ELSE {"C11", "C13"}) \cup HttpOk(E.status, TRUE, 200) \cup FrontEnd)
  /\ UNCHANGED <<b, g, met, owed, lost, imported, src, known>>

EvRead ==
  /\ Is("read") /\ ~E.tail
  /\ LET ids == IdsOf(E.res) IN
     /\ LET v == ReadVerdict(g, E.ctx, E.last, E.lim, E.res) IN
        \* a wrong result of a read with a limit is also a matter of C11 ("exactly the first n matching frames")
        Judge((IF E.lim # NOLIM /\ v \cap {"C01", "C08"} # {} THEN v \cup {"C11"} ELSE v) \cup HttpOk(E.status, TRUE, 200) \cup FrontEnd)
     /\ met' = met \cup MetBy(g, E.ctx, E.last, E.lim, ids)
     /\ g' = [g EXCEPT !.gone = @ \cup Skipped(g, E.ctx, E.last, E.lim, ids)]
  /\ UNCHANGED <<b, owed, lost, imported, src, known>>

(* a streaming read whose consumer stalled after E.k frames while the clock advanced by E.n: with a   *)
(* delivery buffer of one frame the history thread has looked at no more than k + 2 frames by then, *)
(* so everything from position k + 3 on was examined under the new clock (C09), nothing at all may *)
(* be expired under the old one, and whatever is alive under the new clock must be there (C01 C08) *)
EvSlowRead ==
  /\ Is("slowread")
  /\ LET ids == IdsOf(E.res)
         g1 == [g EXCEPT !.clock = @ + E.n]
         late == {ids[j] : j \in {j \in 1..Len(ids) : j >= E.k + 3}} \cap DOMAIN g.acc
         base == ReadVerdict(g, E.ctx, E.last, E.lim, E.res) \ {"C08"}
         \* judged under the old clock, except that frames may be missing only if the new clock explains it
         v == (base \ (IF Skipped(g1, E.ctx, E.last, E.lim, ids) \subseteq g.evictable THEN {"C01"} ELSE {}))
              \cup (IF \E i \in late : Expired(i, g.acc[i], g1.clock) THEN {"C09"} ELSE {})
              \cup (IF \E p \in Skipped(g1, E.ctx, E.last, E.lim, ids) : p \notin g.evictable THEN {"C01", "C08"} ELSE {})
     IN /\ Judge(v)
        /\ met' = met \cup MetBy(g, E.ctx, E.last, E.lim, ids)
        /\ g' = [g1 EXCEPT !.gone = @ \cup Skipped(g1, E.ctx, E.last, E.lim, ids)]
  /\ UNCHANGED <<b, owed, lost, imported, src, known>>

EvGet ==
  /\ Is("get")
  /\ Judge(GetVerdict(g, E.id, E.res) \cup FrontEnd
           \cup (IF E.status = 0 \/ (IF E.res = <<>> THEN Is4xx(E.status) ELSE Is2xx(E.status)) THEN {} ELSE {"C13"}))
  /\ g' = IF E.res = <<>> /\ E.id \in Present(g) THEN [g EXCEPT !.gone = @ \cup {E.id}] ELSE g
  /\ UNCHANGED <<b, met, owed, lost, imported, src, known>>

EvHead ==
  /\ Is("head")
  /\ Judge(HeadVerdict(g, E.topic, E.ctx, E.res) \cup FrontEnd
           \cup (IF E.status = 0 \/ (IF E.res = <<>> THEN Is4xx(E.status) ELSE Is2xx(E.status)) THEN {} ELSE {"C13"}))
  /\ LET top == IF E.res = <<>> THEN NOID ELSE E.res[1].id
         newer == {j \in TopicIds(g, E.ctx, E.topic) : j > top /\ ~Expired(j, g.acc[j], g.clock)}
     IN g' = [g EXCEPT !.gone = @ \cup newer]
  /\ UNCHANGED <<b, met, owed, lost, imported, src, known>>

(* raw partitions at a quiescent point (collector idle) *)
EvDump ==
  /\ Is("dump")
  /\ LET S == ToSet(E.dump.stream) IN
     /\ Judge(DumpVerdict(g, E.dump) \cup EvictionOrderVerdict(g, S, imported)
              \* (C20: a registration whose import was refused is not in the registry)
              \cup (IF \E c \in ToSet(E.dump.contexts) \cap g.refusedReg : ~MayBeUsable(g, c) THEN {"C20"} ELSE {}))
     /\ g' = [g EXCEPT !.gone = @ \cup (Present(g) \ S)]
  /\ UNCHANGED <<b, met, owed, lost, imported, src, known>>

(* wait_for_gc returned; the event carries the raw partitions *)
EvDrain ==
  /\ Is("drain")
  /\ LET S == ToSet(E.dump.stream)
         lostNow == DrainVerdict(g, {}, lost, S, imported)
     IN
     /\ Judge(DumpVerdict(g, E.dump) \cup DrainVerdict(g, met, owed \ lost, S, imported)
              \cup EvictionOrderVerdict(g, S, imported))
     /\ known' = IF lostNow # {} THEN known \cup {"C09-reopen-drops-head-gc"} ELSE known
     /\ g' = [g EXCEPT !.gone = @ \cup (Present(g) \ S)]
     /\ met' = {} /\ owed' = {}
  /\ UNCHANGED <<b, lost, imported, src>>

(* the process was stopped and the store opened again: pending collector work is lost *)
(* (DESIGN 6 #11); nothing else may change                                            *)
EvReopen ==
  /\ Is("reopen")
  /\ lost' = lost \cup owed
  /\ met' = {}
  /\ UNCHANGED <<b, g, owed, imported, src, bad, known>>

(* C20: everything the source returned is about to be imported into an empty store *)
EvXferBegin ==
  /\ Is("xfer_begin")
  /\ src' = [i \in {i \in Present(g) : ~Expired(i, g.acc[i], g.clock)} |-> g.acc[i]]
  /\ g' = [G0 EXCEPT !.clock = g.clock]
  /\ met' = {} /\ owed' = {} /\ lost' = {} /\ imported' = {}
  /\ UNCHANGED <<b, bad, known>>

EvXferEnd ==
  /\ Is("xfer_end")
  /\ LET tgt == [i \in {i \in Present(g) \cap imported : ~Expired(i, g.acc[i], g.clock)} |-> g.acc[i]] IN
     Judge(IF tgt = src THEN {} ELSE {"C20"})
  /\ UNCHANGED <<b, g, met, owed, lost, imported, src, known>>

(* C13: a malformed or unanswerable request gets a response of the right class, changes nothing, *)
(* and the server answers the next request                                                        *)
EvBad ==
  /\ Is("bad")
  /\ Judge(IF /\ E.same /\ E.next = 200
              /\ \/ (E.expect = "4xx" /\ Is4xx(E.status))
                 \/ (E.expect = "404" /\ Is4xx(E.status))
                 \/ (E.expect = "2xx" /\ E.status >= 200 /\ E.status <= 299)
           THEN {} ELSE {"C13"})
  /\ UNCHANGED <<b, g, met, owed, lost, imported, src, known>>

(* C06 / C03 over HTTP: a follow stream scoped to one context (GET /?follow&tail or                *)
(* GET /head/{topic}?follow) that was open while E.appended were appended                           *)
EvFollowProbe ==
  /\ Is("followprobe")
  /\ LET got == {E.res[j].id : j \in 1..Len(E.res)}
         \* (through the command line nothing tells when the subscription exists: a frame appended early may be history,
         \*  and history at or below the start position is not replayed)
         want == {E.appended[j].id : j \in {j \in 1..Len(E.appended) :
                      /\ E.appended[j].ctx = E.ctx
                      /\ (E.route = "head" => E.appended[j].topic = E.topic)
                      /\ (E.via = "cli" => E.appended[j].id > E.last)}}
         \* with a limit (and a heartbeat): exactly the first `lim` frames of the context - history, then live -
         \* pulses are not counted, and the stream ends by itself
         avail == Cands(g, E.ctx, E.last)
         \* known finding C03-future-dated-history-drops-live: the replayed history of the context holds a frame
         \* whose id lies above the ids of the frames appended meanwhile (an imported frame dated ahead of the
         \* clock); the live side drops everything at or below the last scanned id, i.e. all of them
         \* (only a stream that replays the history hands a last scanned id over to its live side)
         replays == E.route \in {"catlim", "cathist"}
         futureHist == /\ replays
                       /\ \E i \in avail \ {E.appended[j].id : j \in 1..Len(E.appended)} :
                            \E j \in 1..Len(E.appended) : E.appended[j].ctx = E.ctx /\ i > E.appended[j].id
         short == E.route = "catlim" /\ Len(E.res) # (IF Cardinality(avail) < E.lim THEN Cardinality(avail) ELSE E.lim)
                     /\ avail \cap g.evictable = {}
         missing == E.route # "catlim" /\ ~(want \subseteq got)
         \* with the history (after E.last) replayed first: everything of the context that a read returns now is there;
         \* the known finding explains the loss of frames appended while the stream was open, never of history
         appendedIds == {E.appended[j].id : j \in 1..Len(E.appended)}
         histGap == E.route = "cathist" /\ ~((avail \ (g.evictable \cup appendedIds)) \subseteq got)
         liveGap == E.route = "cathist" /\ ~((avail \ g.evictable) \subseteq got)
     IN
     /\ known' = IF (short \/ missing \/ liveGap) /\ ~histGap /\ futureHist THEN known \cup {"C03-future-dated-history-drops-live"} ELSE known
     /\ Judge((IF E.status # 200 THEN {"C13"} ELSE {})
              \cup (IF short /\ ~futureHist THEN {"C11", "C13"} ELSE {})
              \cup (IF \E j \in 1..Len(E.res) : E.res[j].ctx # E.ctx THEN {"C06"} ELSE {})
              \cup (IF E.route = "head" /\ \E j \in 1..Len(E.res) : E.res[j].topic # E.topic THEN {"C05", "C13"} ELSE {})
              \cup (IF histGap \/ ((missing \/ liveGap) /\ ~futureHist) THEN {"C03", "C13"} ELSE {})
              \* (nothing of the history at or below the start position; what is appended while the stream is open is
              \*  delivered whatever its id - a clock behind an imported id)
              \cup (IF \E j \in 1..Len(E.res) : E.res[j].id <= E.last /\ E.res[j].id \notin appendedIds THEN {"C03", "C13"} ELSE {})
              \* (the first line of head --follow is the current head, which may be an imported frame with any id)
              \cup (IF ~futureHist /\ \E a, c \in (IF E.route = "head" THEN 2 ELSE 1)..Len(E.res) : a < c /\ E.res[a].id >= E.res[c].id
                    THEN {"C03", "C13"} ELSE {}))
  /\ UNCHANGED <<b, g, met, owed, lost, imported, src>>

(* C10: content reads back byte for byte, the hash is a function of the bytes, every visible hash has content *)
EvCas ==
  /\ Is("cas")
  /\ Judge(IF E.ok THEN {} ELSE {"C10"})
  /\ UNCHANGED <<b, g, met, owed, lost, imported, src, known>>

(* C02 over HTTP under the real clock (harness: realtime_order_probe): the frame of an upload that completes after  *)
(* another append was read sorts after it and reaches a poller resuming from it                                    *)
EvOrder ==
  /\ Is("order")
  /\ Judge(IF E.ok THEN {} ELSE {"C02", "C13"})
  /\ UNCHANGED <<b, g, met, owed, lost, imported, src, known>>

(* a panic inside the code under test, or a store that does not open any more, is an  *)
(* observation no behaviour of the specification explains                              *)
EvPanic ==
  /\ Is("panic")
  /\ Judge({"C01", "C12"})
  /\ UNCHANGED <<b, g, met, owed, lost, imported, src, known>>

EvCrash ==
  /\ Is("crash")
  /\ Judge({"C01", "C04", "C07", "C12"})
  /\ UNCHANGED <<b, g, met, owed, lost, imported, src, known>>

(* events of other layers sharing the log are skipped *)
EvOther ==
  /\ l <= Len(Rec)
  /\ E.e \notin {"reset", "append", "import", "remove", "tick", "read", "get", "head", "dump", "drain",
                 "reopen", "xfer_begin", "xfer_end", "panic", "crash", "bad", "followprobe", "cas", "slowread", "order"}
  /\ l' = l + 1
  /\ UNCHANGED <<b, g, met, owed, lost, imported, src, bad, known>>

Next == Reset \/ EvAppend \/ EvImport \/ EvRemove \/ EvTick \/ EvRead \/ EvReadTail \/ EvGet \/ EvHead \/ EvDump
        \/ EvDrain \/ EvReopen \/ EvXferBegin \/ EvXferEnd \/ EvPanic \/ EvCrash \/ EvBad \/ EvFollowProbe \/ EvCas \/ EvSlowRead \/ EvOrder \/ EvOther

Spec == Init /\ [][Next]_tvars

(* every line was consumed; the verdict is printed once, at the end *)
Done == l = Len(Rec) + 1
Final == Done => PrintT("VERDICT " \o ToJson([bad |-> bad, known |-> known, events |-> Len(Rec)]))
Consumed == IF TLCGet("stats").diameter = Len(Rec) + 1 THEN TRUE
            ELSE PrintT(<<"STUCK", TLCGet("stats").diameter, Len(Rec)>>) /\ FALSE
=============================================================================

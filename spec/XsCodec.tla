------------------------------- MODULE XsCodec -------------------------------
(***************************************************************************)
(* C12: the wire grammar of TTL values and read options, transcribed from  *)
(* src/store/ttl.rs and src/store/mod.rs (FollowOption / deserialize_bool /*)
(* ReadOptions::from_query / to_query_string) at token level.              *)
(*                                                                         *)
(*  - TLC checks the user-level statements on the transcription for every  *)
(*    string of the alphabet: Parse(Render(v)) = v for both spellings,     *)
(*    malformed input is rejected, head:0 is rejected;                     *)
(*  - every enumerated input is emitted as a vector and run through the    *)
(*    real parse_ttl / TTL::from_query / serde / to_query / ReadOptions    *)
(*    (one implementation test per model case); the recorded results are   *)
(*    validated against the same operators (trace mode, constant Mode).    *)
(* Numbers are canonical decimal strings: TLC integers are 32 bit.         *)
(***************************************************************************)
EXTENDS Integers, Sequences, FiniteSets, TLC, Json, IOUtils

CONSTANT Mode     \* "check": enumerate + print vectors; "trace": validate recorded results

ERR == "ERR"
U32MAX == "4294967295"
U32MAXP == "4294967296"
U64MAX == "18446744073709551615"
U64MAXP == "18446744073709551616"

NumToks == {"0", "1", "7", "007", "+1", "+0", "00", U32MAX, U32MAXP, U64MAX, U64MAXP, "-1", "-0", "", "x", " 1", "1 ", "1.5",
            "1e3", "0x10", "1_000", "12345678901234567890123"}

\* Rust's <u64 as FromStr>: optional '+', decimal digits, no whitespace, overflow is an error
U64(t) == CASE t = "0" -> "0" [] t = "+0" -> "0" [] t = "00" -> "0" [] t = "1" -> "1" [] t = "+1" -> "1" [] t = "007" -> "7" [] t = "7" -> "7"
            [] t = U32MAX -> U32MAX [] t = U32MAXP -> U32MAXP [] t = U64MAX -> U64MAX [] OTHER -> ERR
U32(t) == IF U64(t) \in {U32MAXP, U64MAX} THEN ERR ELSE U64(t)
Usize(t) == U64(t)

Forever == [k |-> "forever", n |-> "0"]
Ephemeral == [k |-> "ephemeral", n |-> "0"]
Bad == [k |-> ERR, n |-> "0"]

\* ttl.rs parse_ttl
ParseTTL(kw, tok) ==
  CASE kw = "forever" /\ tok = "" -> Forever
    [] kw = "ephemeral" /\ tok = "" -> Ephemeral
    [] kw = "time:" -> IF U64(tok) = ERR THEN Bad ELSE [k |-> "time", n |-> U64(tok)]
    [] kw = "head:" -> IF U32(tok) = ERR \/ U32(tok) = "0" THEN Bad ELSE [k |-> "head", n |-> U32(tok)]
    [] OTHER -> Bad

\* Serialize / to_query (without the "ttl=" prefix)
RenderTTL(v) == CASE v.k = "forever" -> "forever" [] v.k = "ephemeral" -> "ephemeral"
                  [] v.k = "time" -> "time:" \o v.n [] v.k = "head" -> "head:" \o v.n

Keywords == {"forever", "ephemeral", "Forever", "EPHEMERAL", "", " forever", "forever ", "bogus", "time", "head",
             "time:", "head:", "Time:", "head::", "ttl"}
\* inputs as <<keyword, number token>>; the string is their concatenation
TTLInputs == {<<kw, "">> : kw \in Keywords} \cup {<<"time:", t>> : t \in NumToks} \cup {<<"head:", t>> : t \in NumToks}
TTLValues == {Forever, Ephemeral} \cup {[k |-> "time", n |-> n] : n \in {"0", "1", "7", U32MAX, U32MAXP, U64MAX}}
             \cup {[k |-> "head", n |-> n] : n \in {"1", "7", U32MAX}}

\* split a rendered value back into <<keyword, token>>
Split(v) == IF v.k \in {"time", "head"} THEN <<v.k \o ":", v.n>> ELSE <<v.k, "">>

\* user-level statements
C12_TTLRoundTrip == \A v \in TTLValues : ParseTTL(Split(v)[1], Split(v)[2]) = v
C12_Head0Rejected == ParseTTL("head:", "0") = Bad /\ ParseTTL("head:", "00") = Bad
C12_MalformedRejected ==
  \A i \in TTLInputs : ParseTTL(i[1], i[2]) # Bad =>
       \/ (i[1] \in {"forever", "ephemeral"} /\ i[2] = "")
       \/ (i[1] \in {"time:", "head:"} /\ U64(i[2]) # ERR)
C12_ParsedRendersCanonically ==
  \A i \in TTLInputs : LET v == ParseTTL(i[1], i[2]) IN v # Bad => ParseTTL(Split(v)[1], Split(v)[2]) = v

-----------------------------------------------------------------------------
(* read options: follow / tail / limit as they arrive in a query string *)
FollowToks == {"absent", "", "yes", "true", "false", "no", "maybe", "True"} \cup NumToks
\* FollowOption deserializer: "" | "yes" -> On; u64 -> heartbeat(ms); "true" -> On; "false" | "no" -> Off; else error
ParseFollow(t) ==
  CASE t = "absent" -> [k |-> "off", n |-> "0"]
    [] t \in {"", "yes", "true"} -> [k |-> "on", n |-> "0"]
    [] t \in {"false", "no"} -> [k |-> "off", n |-> "0"]
    [] U64(t) # ERR -> [k |-> "hb", n |-> U64(t)]
    [] OTHER -> Bad
RenderFollow(v) == CASE v.k = "off" -> "absent" [] v.k = "on" -> "true" [] v.k = "hb" -> v.n
FollowValues == {[k |-> "off", n |-> "0"], [k |-> "on", n |-> "0"]} \cup {[k |-> "hb", n |-> n] : n \in {"0", "1", "7", U32MAXP}}
C12_FollowRoundTrip == \A v \in FollowValues : ParseFollow(RenderFollow(v)) = v

TailToks == {"absent", "", "true", "false", "no", "0", "1", "yes", "x"}
ParseTail(t) == IF t \in {"absent", "false", "no", "0"} THEN "false" ELSE "true"
LimitToks == {"absent"} \cup NumToks
ParseLimit(t) == IF t = "absent" THEN "none" ELSE Usize(t)

-----------------------------------------------------------------------------
VARIABLE l
Rec == IF Mode = "trace" THEN ndJsonDeserialize(IOEnv.TRACE) ELSE <<>>

Vec(kind, a, b, exp) == PrintT("VEC " \o ToJson([kind |-> kind, a |-> a, b |-> b, exp |-> exp]))

EmitVectors ==
  /\ \A i \in TTLInputs : Vec("ttl", i[1], i[2], ParseTTL(i[1], i[2]))
  /\ \A v \in TTLValues : Vec("ttl_render", v.k, v.n, RenderTTL(v))
  /\ \A t \in FollowToks : Vec("follow", t, "", ParseFollow(t))
  /\ \A v \in FollowValues : Vec("follow_render", v.k, v.n, RenderFollow(v))
  /\ \A t \in TailToks : Vec("tail", t, "", ParseTail(t))
  /\ \A t \in LimitToks : Vec("limit", t, "", ParseLimit(t))

Init == l = 1 /\ (Mode = "check" => EmitVectors)

\* a recorded result: what the real code answered for one vector, through one entry point
Expected(e) ==
  CASE e.kind = "ttl" -> ParseTTL(e.a, e.b)
    [] e.kind = "follow" -> ParseFollow(e.a)
    [] OTHER -> Bad
ExpectedStr(e) ==
  CASE e.kind = "ttl_render" -> RenderTTL([k |-> e.a, n |-> e.b])
    [] e.kind = "follow_render" -> RenderFollow([k |-> e.a, n |-> e.b])
    [] e.kind = "tail" -> ParseTail(e.a)
    [] e.kind = "limit" -> ParseLimit(e.a)
    [] e.kind = "opts_rt" -> "ok"
    [] OTHER -> ERR

Judge(e) ==
  IF e.kind \in {"ttl", "follow"}
  THEN [k |-> e.gotk, n |-> e.gotn] = Expected(e)
  ELSE e.gots = ExpectedStr(e)

Step ==
  /\ Mode = "trace" /\ l <= Len(Rec)
  /\ IF Judge(Rec[l]) THEN TRUE
     ELSE PrintT("VIOL " \o ToJson([props |-> {"C12"}, b |-> 0, l |-> l, e |-> Rec[l].kind \o "/" \o Rec[l].via \o ":" \o Rec[l].a \o Rec[l].b]))
  /\ l' = l + 1

Spec == Init /\ [][Step]_l

Done == l = Len(Rec) + 1
Final == (Mode = "trace" /\ Done) => PrintT("VERDICT " \o ToJson([events |-> Len(Rec)]))
=============================================================================

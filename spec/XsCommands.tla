----------------------------- MODULE XsCommands -----------------------------
(***************************************************************************)
(* Code-layer model of xs commands (src/commands/serve.rs):                 *)
(*   client      Define(name, ctx, script) / Call(name, ctx)                *)
(*   serve loop  ReplayStep (every historical .define is registered again,  *)
(*               an invalid one answers with .error again; historical       *)
(*               .call frames are skipped), Threshold, LiveStep (Define ok  *)
(*               | err; Call -> one task per call with a clone of the       *)
(*               definition current at that moment)                         *)
(*   call task   CallRecv(i) one .recv per value, CallComplete | CallError  *)
(*   Restart     kill at any point + start                                  *)
(* As coded the table is keyed by name only (KeyByCtx = FALSE): a           *)
(* definition in another context replaces this context's and answers its    *)
(* callers (C17 / C19 deviation, demonstrated on the real code).            *)
(* Flags switching single mechanisms off are spec mutants.                  *)
(***************************************************************************)
EXTENDS Naturals, Sequences, FiniteSets, TLC, SequencesExt, FiniteSetsExt, Json

CONSTANTS Names, Ctxs, Scripts, MaxClient, MaxRestarts,
          KeyByCtx,
          OneTerminal,      \* FALSE: .complete is appended after .error as well
          SkipOldCalls,     \* FALSE: calls met during the start-up replay are executed again
          StampCall,        \* FALSE: .recv frames lose frame_id
          CallerCtx,        \* FALSE: output goes to the definition's context
          LatestWins,       \* FALSE: a re-definition does not replace the table entry
          Gen

VARIABLES log, phase, T, srvPos, cmd, calls, nclient, nrestarts, inc, hist
vars == <<log, phase, T, srvPos, cmd, calls, nclient, nrestarts, inc, hist>>

\* script kinds: "two" two values; "zero" none; "err" runtime error; "bad" does not parse
Valid(sk) == sk # "bad"
NVal(sk) == IF sk = "two" THEN 2 ELSE 0
Errs(sk) == sk = "err"

Frame(k, n, c, d, f, sk, i) == [k |-> k, n |-> n, c |-> c, d |-> d, f |-> f, sk |-> sk, i |-> i, j |-> inc]
Key(n, c) == IF KeyByCtx THEN <<n, c>> ELSE <<n, 0>>
MapPut(m, k, v) == [x \in (DOMAIN m) \cup {k} |-> IF x = k THEN v ELSE m[x]]

Init == /\ log = <<>> /\ phase = "replay" /\ T = 0 /\ srvPos = 1 /\ cmd = <<>> /\ calls = {}
        /\ nclient = 0 /\ nrestarts = 0 /\ inc = 0 /\ hist = <<>>

Client(k, n, c, sk) ==
  /\ nclient < MaxClient /\ nclient' = nclient + 1
  /\ log' = Append(log, Frame(k, n, c, 0, 0, sk, 0))
  /\ hist' = IF Gen THEN Append(hist, [a |-> k, n |-> n, c |-> c, k |-> sk]) ELSE hist
  /\ UNCHANGED <<phase, T, srvPos, cmd, calls, nrestarts, inc>>

\* handle_define: register, or answer with .error {command_id}
DefineStep(p) ==
  LET fr == log[p] IN
  IF Valid(fr.sk)
  THEN /\ cmd' = IF LatestWins \/ Key(fr.n, fr.c) \notin DOMAIN cmd THEN MapPut(cmd, Key(fr.n, fr.c), p) ELSE cmd
       /\ UNCHANGED log
  ELSE /\ log' = Append(log, Frame("error", fr.n, fr.c, p, 0, "-", 0))
       /\ UNCHANGED cmd

CallStep(p) ==
  LET fr == log[p] IN
  IF Key(fr.n, fr.c) \in DOMAIN cmd
  THEN calls' = calls \cup {[q |-> p, d |-> cmd[Key(fr.n, fr.c)], i |-> 1, done |-> FALSE, errd |-> FALSE]}
  ELSE UNCHANGED calls

ReplayStep ==
  /\ phase = "replay" /\ srvPos <= T
  /\ IF log[srvPos].k = "define" THEN DefineStep(srvPos) /\ UNCHANGED calls
     ELSE IF log[srvPos].k = "call" /\ ~SkipOldCalls THEN CallStep(srvPos) /\ UNCHANGED <<log, cmd>>
     ELSE UNCHANGED <<log, cmd, calls>>
  /\ srvPos' = srvPos + 1
  /\ UNCHANGED <<phase, T, nclient, nrestarts, inc, hist>>

Threshold == /\ phase = "replay" /\ srvPos > T /\ phase' = "live"
             /\ UNCHANGED <<log, T, srvPos, cmd, calls, nclient, nrestarts, inc, hist>>

LiveStep ==
  /\ phase = "live" /\ srvPos <= Len(log)
  /\ IF log[srvPos].k = "define" THEN DefineStep(srvPos) /\ UNCHANGED calls
     ELSE IF log[srvPos].k = "call" THEN CallStep(srvPos) /\ UNCHANGED <<log, cmd>>
     ELSE UNCHANGED <<log, cmd, calls>>
  /\ srvPos' = srvPos + 1
  /\ UNCHANGED <<phase, T, nclient, nrestarts, inc, hist>>

OutCtx(cl) == IF CallerCtx THEN log[cl.q].c ELSE log[cl.d].c

CallRecv(cl) ==
  /\ cl \in calls /\ ~cl.done /\ ~Errs(log[cl.d].sk) /\ cl.i <= NVal(log[cl.d].sk)
  /\ log' = Append(log, Frame("recv", log[cl.q].n, OutCtx(cl), cl.d, IF StampCall THEN cl.q ELSE 0, "-", cl.i))
  /\ calls' = (calls \ {cl}) \cup {[cl EXCEPT !.i = @ + 1]}
  /\ UNCHANGED <<phase, T, srvPos, cmd, nclient, nrestarts, inc, hist>>

CallComplete(cl) ==
  /\ cl \in calls /\ ~cl.done
  /\ (~Errs(log[cl.d].sk) /\ cl.i > NVal(log[cl.d].sk)) \/ (cl.errd /\ ~OneTerminal)
  /\ log' = Append(log, Frame("complete", log[cl.q].n, OutCtx(cl), cl.d, cl.q, "-", 0))
  /\ calls' = (calls \ {cl}) \cup {[cl EXCEPT !.done = TRUE]}
  /\ UNCHANGED <<phase, T, srvPos, cmd, nclient, nrestarts, inc, hist>>

CallError(cl) ==
  /\ cl \in calls /\ ~cl.done /\ ~cl.errd /\ Errs(log[cl.d].sk)
  /\ log' = Append(log, Frame("error", log[cl.q].n, OutCtx(cl), cl.d, cl.q, "-", 0))
  /\ calls' = (calls \ {cl}) \cup {[cl EXCEPT !.errd = TRUE, !.done = OneTerminal]}
  /\ UNCHANGED <<phase, T, srvPos, cmd, nclient, nrestarts, inc, hist>>

Restart ==
  /\ nrestarts < MaxRestarts /\ nrestarts' = nrestarts + 1
  /\ phase' = "replay" /\ T' = Len(log) /\ srvPos' = 1 /\ cmd' = <<>> /\ calls' = {} /\ inc' = inc + 1
  /\ hist' = IF Gen THEN Append(hist, [a |-> "restart", n |-> "-", c |-> 0, k |-> "-"]) ELSE hist
  /\ UNCHANGED <<log, nclient>>

Next ==
  \/ \E n \in Names, c \in Ctxs, sk \in Scripts : Client("define", n, c, sk)
  \/ \E n \in Names, c \in Ctxs : Client("call", n, c, "-")
  \/ ReplayStep \/ Threshold \/ LiveStep
  \/ \E cl \in calls : CallRecv(cl) \/ CallComplete(cl) \/ CallError(cl)
  \/ Restart
Spec == Init /\ [][Next]_vars

\* ---------------------------------------------------------------- properties (from the log)
Idx == 1..Len(log)
Quiet == phase = "live" /\ srvPos > Len(log) /\ \A cl \in calls : cl.done
CallsIdx == {q \in Idx : log[q].k = "call"}
\* the definition a call must use: latest valid define of the (context, name) before it
DefFor(q) == LET S == {d \in Idx : d < q /\ log[d].k = "define" /\ Valid(log[d].sk) /\ log[d].n = log[q].n /\ log[d].c = log[q].c}
             IN IF S = {} THEN 0 ELSE Max(S)
Resp(q) == {x \in Idx : log[x].f = q /\ log[x].k \in {"recv", "complete", "error"}}
Terms(q) == {x \in Resp(q) : log[x].k \in {"complete", "error"}}

C19_AtMostOneTerminal == \A q \in CallsIdx : Cardinality(Terms(q)) <= 1
C19_ExactlyOneTerminalAtQuiet ==
  Quiet => \A q \in CallsIdx : (DefFor(q) # 0 /\ log[q].j = inc) => Cardinality(Terms(q)) = 1
C19_TerminalIsLast == \A q \in CallsIdx : \A t \in Terms(q) : \A x \in Resp(q) : x <= t
C19_RecvInOrder == \A q \in CallsIdx : \A x, y \in Resp(q) : (x < y /\ log[x].k = "recv" /\ log[y].k = "recv") => log[x].i < log[y].i
C19_Stamped == \A x \in Idx : log[x].k = "recv" => log[x].f # 0 /\ log[x].d # 0
C19_LatestValidDefinition == \A q \in CallsIdx : \A x \in Resp(q) : log[x].d = DefFor(q)
C19_UndefinedSilent == \A q \in CallsIdx : DefFor(q) = 0 => Resp(q) = {}
C19_CallerCtx == \A q \in CallsIdx : \A x \in Resp(q) : log[x].c = log[q].c
C19_ResultMatchesScript ==
  \A q \in CallsIdx : \A t \in Terms(q) :
     LET sk == log[log[t].d].sk IN
       /\ log[t].k = (IF Errs(sk) THEN "error" ELSE "complete")
       /\ Cardinality({x \in Resp(q) : log[x].k = "recv"}) = (IF Errs(sk) THEN 0 ELSE NVal(sk))
C19_NoReplay == \A q \in CallsIdx : \A x \in Resp(q) : log[x].j = log[q].j
C19_InvalidDefinitionReported ==
  Quiet => \A d \in Idx : (log[d].k = "define" /\ ~Valid(log[d].sk)) => \E x \in Idx : log[x].k = "error" /\ log[x].d = d /\ log[x].f = 0
\* C17: after a restart the table is what the log says, per (context, name)
LatestDef(n, c) == LET S == {d \in Idx : log[d].k = "define" /\ Valid(log[d].sk) /\ log[d].n = n /\ log[d].c = c} IN IF S = {} THEN 0 ELSE Max(S)
C17_CommandsRestored ==
  (Quiet /\ KeyByCtx) => \A n \in Names, c \in Ctxs :
     IF LatestDef(n, c) = 0 THEN <<n, c>> \notin DOMAIN cmd ELSE <<n, c>> \in DOMAIN cmd /\ cmd[<<n, c>>] = LatestDef(n, c)

\* ---------------------------------------------------------------- liveness (MC_proc_live_c.cfg, no VIEW, no CONSTRAINT)
\* the serve loop and the call tasks are the actors that run by themselves; clients and restarts are bounded
Fairness == /\ WF_vars(ReplayStep \/ Threshold \/ LiveStep)
            /\ WF_vars(\E cl \in calls : CallRecv(cl) \/ CallComplete(cl) \/ CallError(cl))
FairSpec == Spec /\ Fairness
\* the server catches up with the stream and every task ends
L_Quiet == <>[]Quiet
\* C19 as progress: every call of the current incarnation that met a definition ends up with exactly one terminal event
\* and all the values of the definition it must use; an invalid definition ends up reported
L_EveryCallAnswered ==
  <>[](\A q \in CallsIdx : (DefFor(q) # 0 /\ log[q].j = inc) =>
          /\ Cardinality(Terms(q)) = 1
          /\ Cardinality({x \in Resp(q) : log[x].k = "recv"}) = (IF Errs(log[DefFor(q)].sk) THEN 0 ELSE NVal(log[DefFor(q)].sk)))
L_InvalidReported ==
  <>[](\A d \in Idx : (log[d].k = "define" /\ ~Valid(log[d].sk)) => \E x \in Idx : log[x].k = "error" /\ log[x].d = d /\ log[x].f = 0)
\* C17 as progress: after the last restart the table ends up being what the log says
L_Restored == KeyByCtx => <>[](\A n \in Names, c \in Ctxs :
     IF LatestDef(n, c) = 0 THEN <<n, c>> \notin DOMAIN cmd ELSE <<n, c>> \in DOMAIN cmd /\ cmd[<<n, c>>] = LatestDef(n, c))

GenInv == (Gen /\ nclient = MaxClient) => PrintT(<<"ACTS", ToJson(hist)>>)
mcview == <<log, phase, T, srvPos, cmd, calls, nclient, nrestarts, inc>>
=============================================================================

---------------------------- MODULE XsConcurrent ----------------------------
(***************************************************************************)
(* Code-layer model of Store::append / Store::read(follow) / read_sync     *)
(* polling at the granularity of the gates in src/store/mod.rs (cfg        *)
(* xs_verif): one action = one release of one actor.                       *)
(*                                                                         *)
(*   writer  w : Lock+AssignId -> Commit -> Broadcast -> Return            *)
(*   reader    : Subscribe; history thread (HistStart, HistStep, HistEnd,  *)
(*               HistThreshold); live task (LiveStart, LiveReady, LiveStep)*)
(*               heartbeat (Pulse); consumer (ConsumerRecv)                *)
(*   poller    : Poll = read_sync(last-id)                                 *)
(*                                                                         *)
(* The history scan runs over the live primary partition: each pull takes  *)
(* the smallest stored id beyond the cursor at that instant.               *)
(* Flags UseLock / DedupLe / SubFirst / CommitFirst / LimitFix / HbStops   *)
(* switch single mechanisms off: with all TRUE the model is the code as    *)
(* fixed; each FALSE is a spec mutant that must break an invariant.        *)
(***************************************************************************)
EXTENDS Integers, Sequences, FiniteSets, SequencesExt, FiniteSetsExt, TLC

CONSTANTS Writers,      \* set of writer names
          Plan,         \* Plan[w] = sequence of <<kind, ctx>>, kind "f" (stored) | "e" (ephemeral)
          History,      \* sequence of ctx: frames stored before anything starts (ids 1..Len)
          B, M,         \* broadcast and delivery capacities
          Follow,       \* "off" | "on" | "hb"
          OptTail, OptLast, Limit, RCtx,   \* reader options; Limit = 0: none; RCtx = ALLC: all contexts
          MaxPulse,
          UseLock, DedupLe, SubFirst, CommitFirst, LimitFix, HbStops,
          Ahead,        \* 0, or by how many ids the last history frame is dated ahead of the clock (an imported frame)
          Gen

ALLC == -1
NONE == 0
END == 9999
THRESH == 10000
PULSE == 10001

VARIABLES nextId, stream, eph, fctx,        \* ids assigned; stored ids; ephemeral ids; id -> ctx
          wpc, wi, wid, lock,               \* writer pc, index in plan, current id, lock holder
          sub, inbox, lagged,               \* subscribed?, broadcast queue, lag flag
          hpc, cursor, cur, last, count,    \* history thread
          doneState, doneVal,               \* "none" | "sent" | "dropped"; <<last, count>>
          lpc, lcur, llast, lcount,         \* live task
          hbAlive, npulse,
          out, delivered, closedSeen,       \* delivery channel, consumer log
          pollLast, pollSeen,
          atSub, sentAfterSub, retBeforeSub, \* ghosts
          hist

wvars == <<wpc, wi, wid, lock>>
svars == <<nextId, stream, eph, fctx>>
rvars == <<sub, inbox, lagged, hpc, cursor, cur, last, count, doneState, doneVal, lpc, lcur, llast, lcount,
           hbAlive, npulse, out, delivered, closedSeen>>
pvars == <<pollLast, pollSeen>>
gvars == <<atSub, sentAfterSub, retBeforeSub>>
vars == <<svars, wvars, rvars, pvars, gvars, hist>>
mcview == <<svars, wvars, rvars, pvars, gvars>>

Log(a) == hist' = IF Gen THEN Append(hist, a) ELSE hist

Following == Follow # "off"

(* ids of the frames stored before anything starts: 1..Len(History) - or, with Ahead > 0, the last of them carries an  *)
(* id ahead of the clock (it was imported): the ids handed out to appends start below it (known finding             *)
(* C03-future-dated-history-drops-live: the live side drops everything at or below the last scanned id)             *)
Future == IF Ahead = 0 \/ History = <<>> THEN {} ELSE {Len(History) + Ahead}
HistIds == IF Future = {} THEN 1..Len(History) ELSE (1..(Len(History) - 1)) \cup Future
HistCtx(i) == IF i \in Future THEN History[Len(History)] ELSE History[i]

Init ==
  /\ nextId = (IF Future = {} THEN Len(History) + 1 ELSE Len(History)) /\ stream = HistIds /\ eph = {}
  /\ fctx = [i \in HistIds |-> HistCtx(i)]
  /\ wpc = [w \in Writers |-> "idle"] /\ wi = [w \in Writers |-> 1] /\ wid = [w \in Writers |-> NONE]
  /\ lock = "free"
  /\ sub = FALSE /\ inbox = <<>> /\ lagged = FALSE
  /\ hpc = "init" /\ cursor = OptLast /\ cur = NONE /\ last = NONE /\ count = 0
  /\ doneState = "none" /\ doneVal = <<NONE, 0>>
  /\ lpc = "init" /\ lcur = NONE /\ llast = NONE /\ lcount = 0
  /\ hbAlive = FALSE /\ npulse = 0
  /\ out = <<>> /\ delivered = <<>> /\ closedSeen = FALSE
  /\ pollLast = 0 /\ pollSeen = {}
  /\ atSub = {} /\ sentAfterSub = {} /\ retBeforeSub = {}
  /\ hist = <<>>

-----------------------------------------------------------------------------
(* writers *)
AssignId(w) ==
  /\ wpc[w] = "idle" /\ wi[w] <= Len(Plan[w])
  /\ (UseLock => lock = "free")
  /\ lock' = IF UseLock THEN w ELSE lock
  /\ wid' = [wid EXCEPT ![w] = nextId] /\ nextId' = nextId + 1
  /\ fctx' = [i \in (DOMAIN fctx) \cup {nextId} |-> IF i = nextId THEN Plan[w][wi[w]][2] ELSE fctx[i]]
  /\ eph' = IF Plan[w][wi[w]][1] = "e" THEN eph \cup {nextId} ELSE eph
  /\ wpc' = [wpc EXCEPT ![w] = "id"]
  /\ Log(w)
  /\ UNCHANGED <<stream, wi, rvars, pvars, gvars>>

DoBroadcast(id) ==
  IF sub /\ lpc \notin {"exit"}
  THEN IF lpc = "wait"
       THEN /\ lcur' = id /\ lpc' = "hold" /\ UNCHANGED <<inbox, lagged>>
       ELSE /\ UNCHANGED <<lcur, lpc>>
            /\ IF Len(inbox) < B
               THEN inbox' = Append(inbox, id) /\ UNCHANGED lagged
               ELSE inbox' = Append(Tail(inbox), id) /\ lagged' = TRUE
  ELSE UNCHANGED <<inbox, lagged, lcur, lpc>>

\* the frame becomes visible (ephemeral frames skip this step in the code; here it is a no-op)
Commit(w) ==
  /\ wpc[w] = "id"
  /\ IF wid[w] \in eph \/ ~CommitFirst
     THEN \* nothing stored yet: straight to the broadcast
          /\ DoBroadcast(wid[w])
          /\ sentAfterSub' = IF sub THEN sentAfterSub \cup {wid[w]} ELSE sentAfterSub
          /\ wpc' = [wpc EXCEPT ![w] = "bcast"]
          /\ UNCHANGED stream
     ELSE /\ stream' = stream \cup {wid[w]}
          /\ wpc' = [wpc EXCEPT ![w] = "committed"]
          /\ UNCHANGED <<inbox, lagged, lcur, lpc, sentAfterSub>>
  /\ Log(w)
  /\ UNCHANGED <<nextId, eph, fctx, wi, wid, lock, sub, hpc, cursor, cur, last, count, doneState, doneVal,
                 llast, lcount, hbAlive, npulse, out, delivered, closedSeen, pvars, atSub, retBeforeSub>>

Broadcast(w) ==
  /\ wpc[w] = "committed"
  /\ DoBroadcast(wid[w])
  /\ sentAfterSub' = IF sub THEN sentAfterSub \cup {wid[w]} ELSE sentAfterSub
  /\ wpc' = [wpc EXCEPT ![w] = "bcast"]
  /\ Log(w)
  /\ UNCHANGED <<svars, wi, wid, lock, sub, hpc, cursor, cur, last, count, doneState, doneVal,
                 llast, lcount, hbAlive, npulse, out, delivered, closedSeen, pvars, atSub, retBeforeSub>>

Return(w) ==
  /\ wpc[w] = "bcast"
  /\ stream' = IF wid[w] \in eph THEN stream ELSE stream \cup {wid[w]}   \* (only relevant when ~CommitFirst)
  /\ wpc' = [wpc EXCEPT ![w] = "idle"] /\ wi' = [wi EXCEPT ![w] = wi[w] + 1]
  /\ lock' = IF UseLock THEN "free" ELSE lock
  /\ retBeforeSub' = IF ~sub /\ hpc = "init" THEN retBeforeSub \cup {wid[w]} ELSE retBeforeSub
  /\ Log(w)
  /\ UNCHANGED <<nextId, eph, fctx, wid, rvars, pvars, atSub, sentAfterSub>>

-----------------------------------------------------------------------------
(* reader *)
NextOf(c) == LET S == {j \in stream : j > c} IN IF S = {} THEN END ELSE Min(S)
InCtx(id) == RCtx = ALLC \/ fctx[id] = RCtx

\* Store::read up to its return: subscription (if following), threads spawned
Subscribe ==
  /\ hpc = "init" /\ lpc = "init"
  /\ sub' = (Following /\ SubFirst)
  /\ atSub' = stream
  /\ hpc' = IF OptTail THEN "exit" ELSE "start"
  /\ lpc' = IF Following THEN "start" ELSE "exit"
  /\ hbAlive' = (Follow = "hb")
  /\ Log("read")
  /\ UNCHANGED <<svars, wvars, inbox, lagged, cursor, cur, last, count, doneState, doneVal, lcur, llast, lcount,
                 npulse, out, delivered, closedSeen, pvars, sentAfterSub, retBeforeSub>>

\* frames of other contexts are never pulled (the context index is scanned)
NextInCtx(c) == LET S == {j \in stream : j > c /\ InCtx(j)} IN IF S = {} THEN END ELSE Min(S)

\* iterator created, first element pulled
HistStart ==
  /\ hpc = "start"
  /\ cur' = NextInCtx(cursor) /\ hpc' = "scan"
  /\ Log("hist")
  /\ UNCHANGED <<svars, wvars, sub, inbox, lagged, cursor, last, count, doneState, doneVal, lpc, lcur, llast, lcount,
                 hbAlive, npulse, out, delivered, closedSeen, pvars, gvars>>

\* handle the pulled element, pull the next one
HistStep ==
  /\ hpc = "scan" /\ cur # END
  /\ last' = cur /\ cursor' = cur
  /\ IF Limit # 0 /\ count >= Limit
     THEN \* limit reached: return without signalling done
          /\ hpc' = "exit" /\ doneState' = "dropped"
          /\ UNCHANGED <<out, count, cur>>
     ELSE /\ Len(out) < M
          /\ out' = Append(out, cur) /\ count' = count + 1
          /\ cur' = NextInCtx(cur)
          /\ UNCHANGED <<hpc, doneState>>
  /\ Log("hist")
  /\ UNCHANGED <<svars, wvars, sub, inbox, lagged, doneVal, lpc, lcur, llast, lcount, hbAlive, npulse,
                 delivered, closedSeen, pvars, gvars>>

\* the scan is exhausted: threshold (following without limit), then done
HistEnd ==
  /\ hpc = "scan" /\ cur = END
  /\ IF Following /\ Limit = 0
     THEN /\ Len(out) < M /\ out' = Append(out, THRESH) /\ hpc' = "thresholded"
          /\ UNCHANGED <<doneState, doneVal, sub>>
     ELSE /\ doneState' = "sent" /\ doneVal' = <<last, count>> /\ hpc' = "exit"
          /\ sub' = (IF Following /\ ~SubFirst THEN TRUE ELSE sub)
          /\ UNCHANGED out
  /\ Log("hist")
  /\ UNCHANGED <<svars, wvars, inbox, lagged, cursor, cur, last, count, lpc, lcur, llast, lcount, hbAlive, npulse,
                 delivered, closedSeen, pvars, gvars>>

HistDone ==
  /\ hpc = "thresholded"
  /\ doneState' = "sent" /\ doneVal' = <<last, count>> /\ hpc' = "exit"
  /\ sub' = (IF Following /\ ~SubFirst THEN TRUE ELSE sub)
  /\ Log("hist")
  /\ UNCHANGED <<svars, wvars, inbox, lagged, cursor, cur, last, count, lpc, lcur, llast, lcount, hbAlive, npulse,
                 out, delivered, closedSeen, pvars, gvars>>

\* live task released from its start gate: waits for done
LiveStart ==
  /\ lpc = "start"
  /\ lpc' = IF OptTail THEN "ready" ELSE "await"
  /\ Log("live")
  /\ UNCHANGED <<svars, wvars, sub, inbox, lagged, hpc, cursor, cur, last, count, doneState, doneVal, lcur, llast,
                 lcount, hbAlive, npulse, out, delivered, closedSeen, pvars, gvars>>

\* done received (or the history thread went away)
LiveAwait ==
  /\ lpc = "await" /\ doneState # "none"
  /\ IF doneState = "sent"
     THEN lpc' = "ready" /\ llast' = doneVal[1] /\ lcount' = doneVal[2]
     ELSE lpc' = "exit" /\ UNCHANGED <<llast, lcount>>
  /\ hist' = hist     \* not a gate release: happens by itself
  /\ UNCHANGED <<svars, wvars, sub, inbox, lagged, hpc, cursor, cur, last, count, doneState, doneVal, lcur,
                 hbAlive, npulse, out, delivered, closedSeen, pvars, gvars>>

TakeNext ==   \* broadcast_rx.recv(): lag ends the task, else take or wait
  IF lagged THEN lpc' = "exit" /\ UNCHANGED <<inbox, lcur>>
  ELSE IF inbox # <<>> THEN lcur' = Head(inbox) /\ inbox' = Tail(inbox) /\ lpc' = "hold"
  ELSE lpc' = "wait" /\ UNCHANGED <<inbox, lcur>>

LiveReady ==
  /\ lpc = "ready"
  /\ IF LimitFix /\ Limit # 0 /\ lcount >= Limit
     THEN lpc' = "exit" /\ UNCHANGED <<inbox, lcur>>
     ELSE TakeNext
  /\ Log("live")
  /\ UNCHANGED <<svars, wvars, sub, lagged, hpc, cursor, cur, last, count, doneState, doneVal, llast, lcount,
                 hbAlive, npulse, out, delivered, closedSeen, pvars, gvars>>

\* decide about the held frame, then receive again
LiveStep ==
  /\ lpc = "hold"
  /\ IF ~InCtx(lcur) \/ (llast # NONE /\ (IF DedupLe THEN lcur <= llast ELSE lcur < llast))
     THEN /\ TakeNext /\ UNCHANGED <<out, lcount>>
     ELSE /\ Len(out) < M
          /\ out' = Append(out, lcur)
          /\ IF Limit # 0
             THEN /\ lcount' = lcount + 1
                  /\ IF lcount + 1 >= Limit THEN lpc' = "exit" /\ UNCHANGED <<inbox, lcur>> ELSE TakeNext
             ELSE UNCHANGED lcount /\ TakeNext
  /\ Log("live")
  /\ UNCHANGED <<svars, wvars, sub, lagged, hpc, cursor, cur, last, count, doneState, doneVal, llast,
                 hbAlive, npulse, delivered, closedSeen, pvars, gvars>>

\* (MaxPulse bounds the pulses sent, not the heartbeat's noticing that the live side ended: that step is always open)
Pulse ==
  /\ hbAlive
  /\ IF HbStops /\ lpc = "exit"
     THEN hbAlive' = FALSE /\ UNCHANGED <<out, npulse>>
     ELSE /\ npulse < MaxPulse
          /\ Len(out) < M /\ out' = Append(out, PULSE) /\ npulse' = npulse + 1 /\ UNCHANGED hbAlive
  /\ Log("hb")
  /\ UNCHANGED <<svars, wvars, sub, inbox, lagged, hpc, cursor, cur, last, count, doneState, doneVal, lpc, lcur,
                 llast, lcount, delivered, closedSeen, pvars, gvars>>

\* all senders gone: the consumer sees the end of the stream
SendersGone == hpc = "exit" /\ lpc = "exit" /\ ~hbAlive
\* ... or will be without any further input (the heartbeat notices that the live side ended)
WillClose == hpc = "exit" /\ lpc = "exit" /\ (hbAlive => HbStops)

ConsumerRecv ==
  /\ hpc # "init"
  /\ IF out # <<>>
     THEN delivered' = Append(delivered, Head(out)) /\ out' = Tail(out) /\ UNCHANGED closedSeen
     ELSE /\ SendersGone /\ ~closedSeen /\ closedSeen' = TRUE /\ UNCHANGED <<delivered, out>>
  /\ Log("consumer")
  /\ UNCHANGED <<svars, wvars, sub, inbox, lagged, hpc, cursor, cur, last, count, doneState, doneVal, lpc, lcur,
                 llast, lcount, hbAlive, npulse, pvars, gvars>>

Poll ==
  /\ LET r == {i \in stream : i > pollLast} IN
     /\ r # {}
     /\ pollSeen' = pollSeen \cup r /\ pollLast' = Max(r)
  /\ Log("poll")
  /\ UNCHANGED <<svars, wvars, rvars, gvars>>

Next ==
  \/ \E w \in Writers : AssignId(w) \/ Commit(w) \/ Broadcast(w) \/ Return(w)
  \/ Subscribe \/ HistStart \/ HistStep \/ HistEnd \/ HistDone
  \/ LiveStart \/ LiveAwait \/ LiveReady \/ LiveStep \/ Pulse \/ ConsumerRecv
  \/ Poll

Spec == Init /\ [][Next]_vars

-----------------------------------------------------------------------------
(* properties *)
Data(s) == SelectSeq(s, LAMBDA x : x < END)
WritersDone == \A w \in Writers : wpc[w] = "idle" /\ wi[w] > Len(Plan[w])
ReaderIdle == hpc = "exit" /\ lpc \in {"exit", "wait"} /\ out = <<>>
Quiet == WritersDone /\ ReaderIdle /\ hpc # "init"
Open == ~WillClose

C02_PollerNoMiss == \A i \in stream : i <= pollLast => i \in pollSeen
C02_BroadcastOrder == \A a, b \in 1..Len(inbox) : a < b => inbox[a] < inbox[b]

C03_Increasing == \A a, b \in 1..Len(Data(delivered)) : a < b => Data(delivered)[a] < Data(delivered)[b]
C06_Scope == \A i \in ToSet(Data(delivered)) : InCtx(i)
StartOK == \A i \in ToSet(Data(delivered)) : i > OptLast

\* what an open follower must have received once everything is quiet
MustHave == {i \in (IF OptTail THEN {} ELSE stream) \cup sentAfterSub : InCtx(i) /\ i > OptLast}
C03_Complete == (Following /\ Limit = 0 /\ Quiet /\ Open /\ ~lagged) => MustHave \subseteq ToSet(delivered)

\* the only known ways to lose a frame: an ephemeral frame broadcast during the scan is dropped because a later
\* stored frame was scanned (DESIGN 0.5 #2); any frame appended while the stream is open is dropped because the scan
\* ended on a frame dated ahead of the clock (DESIGN 0.5 #16)
LostOnlyByKnown ==
  (Following /\ Limit = 0 /\ Quiet /\ Open /\ ~lagged) =>
     \A i \in MustHave \ ToSet(delivered) : (i \in eph \/ llast \in Future) /\ llast # NONE /\ i <= llast

C03_ThresholdOnce ==
  LET n == Len(SelectSeq(delivered, LAMBDA x : x = THRESH)) IN
  /\ n <= 1
  /\ (n = 1 => Following /\ Limit = 0 /\ ~OptTail)
C03_ThresholdPlaced ==
  \A p \in 1..Len(delivered) : delivered[p] = THRESH =>
      /\ {i \in (retBeforeSub \ eph) \cup HistIds : InCtx(i) /\ i > OptLast} \subseteq ToSet(SubSeq(delivered, 1, p))
      /\ \A q \in 1..(p - 1) : delivered[q] \notin eph

C11_LimitNotExceeded == Limit # 0 => Len(Data(delivered)) + Len(Data(out)) <= Limit
C11_LimitCloses == (Limit # 0 /\ Len(Data(delivered)) = Limit /\ WritersDone /\ hpc = "exit" /\ lpc \in {"exit", "wait"})
                      => WillClose
C11_TailNoHistory == OptTail => ToSet(Data(delivered)) \cap (retBeforeSub \cup HistIds) = {}
C11_PulseOnlyIfAsked == (Follow # "hb") => \A p \in 1..Len(delivered) : delivered[p] # PULSE
C11_NoSilentGap == (lagged /\ lpc = "exit" /\ hpc = "exit") => WillClose
\* nothing is delivered after the stream was seen closed
C11_ClosedIsFinal == closedSeen => out = <<>>
C09_EphemeralNotStored == eph \cap stream = {}

-----------------------------------------------------------------------------
(* liveness: what every fair schedule reaches (configs MC_conc_live_*; no VIEW, Gen = FALSE).  Weak fairness per     *)
(* actor is what the code gives: every thread / task that can run eventually does (the gate scheduler of the        *)
(* harness releases every waiting actor before it declares a scenario finished), a bounded channel only blocks      *)
(* while it is full, and the append mutex is handed on when its holder returns.                                     *)
Fairness ==
  /\ \A w \in Writers : WF_vars(AssignId(w) \/ Commit(w) \/ Broadcast(w) \/ Return(w))
  /\ WF_vars(Subscribe)
  /\ WF_vars(HistStart \/ HistStep \/ HistEnd \/ HistDone)
  /\ WF_vars(LiveStart \/ LiveAwait \/ LiveReady \/ LiveStep)
  /\ WF_vars(Pulse) /\ WF_vars(ConsumerRecv) /\ WF_vars(Poll)
FairSpec == Spec /\ Fairness

\* no schedule leaves a writer stuck (the lock is always released) and the reader's tasks always come to rest
L_WritersFinish == <>[]WritersDone
L_Settles == <>[](WritersDone /\ hpc = "exit" /\ lpc \in {"exit", "wait"} /\ out = <<>>)
\* C02: a poller that keeps asking with its last id ends up with the whole stream
L_PollerComplete == <>[](stream \subseteq pollSeen)
\* C03 as progress: an open, unlagged follower without limit ends up holding everything it is owed
L_FollowerComplete == <>[]((Following /\ Limit = 0 /\ Open /\ ~lagged) => MustHave \subseteq ToSet(delivered))
L_FollowerCompleteKnown ==
  <>[]((Following /\ Limit = 0 /\ Open /\ ~lagged) =>
         \A i \in MustHave \ ToSet(delivered) : (i \in eph \/ llast \in Future) /\ llast # NONE /\ i <= llast)
\* C11: once the limit has been delivered the stream ends (the consumer sees the end, it is not left hanging);
\* a read that does not follow always ends; a lagged follower is closed, never left silently short
L_LimitEnds == <>[]((Limit # 0 /\ Len(Data(delivered)) = Limit) => closedSeen)
L_NonFollowEnds == (~Following) => <>closedSeen
L_LagEnds == <>[](lagged => closedSeen)
\* C03: a threshold-owing replay (from history, following, no limit) does send its threshold
L_ThresholdSent == (Following /\ Limit = 0 /\ ~OptTail) => <>(\E p \in 1..Len(delivered) : delivered[p] = THRESH)
=============================================================================

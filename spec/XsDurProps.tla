------------------------------ MODULE XsDurProps ------------------------------
(***************************************************************************)
(* The user-level statement of C04 (and the crash halves of C07 and C10)   *)
(* as pure operators.  They are used twice:                                *)
(*   - XsDurable (code layer): TLC checks in every state reached by        *)
(*     Recover that what the journal / fsync mechanism leaves is accepted; *)
(*   - TraceDurable (observer): TLC judges every crash image that the real *)
(*     Store::new recovered with the same operators.                       *)
(*                                                                         *)
(* Operations (what the client was told):                                  *)
(*   [op |-> "append", id |-> i, f |-> frame]   accepted append, stored    *)
(*   [op |-> "import", id |-> i, f |-> frame]                              *)
(*   [op |-> "remove", id |-> i]                explicit remove            *)
(*   [op |-> "gc",     id |-> i]                collector's remove (model) *)
(*   [op |-> "noop",   id |-> 0]                rejected append, drain     *)
(* frame = [topic, ctx, ttl, meta, hash]; ids are integers whose order is  *)
(* the byte order of the real ids (appends: operation number; imports:     *)
(* below or above all of them).                                            *)
(*                                                                         *)
(* A world w = [fr : id -> frame, ev : ids that the collector may already  *)
(* have taken (outside the newest N of a head:N topic), hk : head records].*)
(***************************************************************************)
EXTENDS Integers, Sequences, FiniteSets, SequencesExt, FiniteSetsExt, TLC

Z   == 0
XC  == "xs.context"
NOH == "none"
NoFrame == [topic |-> "", ctx |-> 0, ttl |-> "", meta |-> "", hash |-> NOH]

HeadN(ttl) == CASE ttl = "head:1" -> 1 [] ttl = "head:2" -> 2 [] ttl = "head:3" -> 3 [] OTHER -> 0

RemoveKey(S, id) == [i \in (DOMAIN S) \ {id} |-> S[i]]
Put(S, id, f) == [i \in (DOMAIN S) \cup {id} |-> IF i = id THEN f ELSE S[i]]
SortAsc(S) == SetToSortSeq(S, <)

W0 == [fr |-> <<>>, ev |-> {}, hk |-> {}]

(* the n largest elements of S *)
NewestK(S, n) == IF Cardinality(S) <= n THEN S
                 ELSE LET s == SortAsc(S) IN {s[j] : j \in (Len(s) - n + 1)..Len(s)}

(* frames outside the newest N of a (ctx, topic) for which a head:N frame was appended *)
EvictableNow(fr, hk) ==
  UNION {LET T == {j \in DOMAIN fr : fr[j].ctx = h[1] /\ fr[j].topic = h[2]} IN T \ NewestK(T, h[3]) : h \in hk}

ApplyOp(w, o) ==
  LET fr1 == CASE o.op \in {"append", "import"} -> Put(w.fr, o.id, o.f)
               [] o.op \in {"remove", "gc"}     -> RemoveKey(w.fr, o.id)
               [] OTHER                          -> w.fr
      hk1 == IF o.op = "append" /\ HeadN(o.f.ttl) > 0
             THEN w.hk \cup {<<o.f.ctx, o.f.topic, HeadN(o.f.ttl)>>} ELSE w.hk
  IN [fr |-> fr1, hk |-> hk1, ev |-> (w.ev \cap DOMAIN fr1) \cup EvictableNow(fr1, hk1)]

RECURSIVE ApplyOps(_, _, _)
ApplyOps(w, ops, n) == IF n = 0 THEN w ELSE ApplyOp(ApplyOps(w, ops, n - 1), ops[n])

-----------------------------------------------------------------------------
(* An observation o of a recovered store:                                  *)
(*  open, panic : BOOLEAN; again : the store came up a second time, after  *)
(*                a few more appends and a clean stop, with every frame    *)
(*                still there                                              *)
(*  stream   : seq of [id, topic, ctx, ttl, meta, hash]  (primary, raw)    *)
(*  idxT     : seq of <<ctx, topic, id>>     idxC : seq of <<ctx, id>>     *)
(*  contexts : seq of ids (the registry)                                   *)
(*  readAll  : seq of frame records    readCtx : seq of <<ctx, seq of id>> *)
(*  get      : seq of <<id, <<>> or <<frame record>>>>                     *)
(*  head     : seq of <<topic, ctx, <<>> or <<id>>>>                       *)
(*  cas      : seq of <<hash, BOOLEAN>>   accept : seq of <<ctx, BOOLEAN>> *)

FrameOf(r) == [topic |-> r.topic, ctx |-> r.ctx, ttl |-> r.ttl, meta |-> r.meta, hash |-> r.hash]
WithId(i, f) == [id |-> i, topic |-> f.topic, ctx |-> f.ctx, ttl |-> f.ttl, meta |-> f.meta, hash |-> f.hash]

Stored(o) == ToSet(o.stream)
Ids(o) == {r.id : r \in Stored(o)}
RecOf(o, i) == CHOOSE r \in Stored(o) : r.id = i

(* all-or-nothing: the three partitions describe the same frames *)
PartitionsAgree(o) ==
  /\ Cardinality(Ids(o)) = Len(o.stream)
  /\ ToSet(o.idxT) = {<<r.ctx, r.topic, r.id>> : r \in Stored(o)} /\ Len(o.idxT) = Len(o.stream)
  /\ ToSet(o.idxC) = {<<r.ctx, r.id>> : r \in Stored(o)} /\ Len(o.idxC) = Len(o.stream)

(* never reachable one way but not another *)
PathsAgree(o) ==
  /\ [j \in 1..Len(o.readAll) |-> o.readAll[j].id] = SortAsc(Ids(o))
  /\ ToSet(o.readAll) = Stored(o)
  /\ \A e \in ToSet(o.readCtx) : e[2] = SortAsc({i \in Ids(o) : RecOf(o, i).ctx = e[1]})
  /\ \A e \in ToSet(o.get) : IF e[1] \in Ids(o) THEN e[2] = <<RecOf(o, e[1])>> ELSE e[2] = <<>>
  /\ \A e \in ToSet(o.head) :
        LET H == {i \in Ids(o) : RecOf(o, i).topic = e[1] /\ RecOf(o, i).ctx = e[2]}
        IN e[3] = IF H = {} THEN <<>> ELSE <<Max(H)>>

(* the store is what the acknowledged operations make it, give or take the collector *)
FitsWorld(o, w) ==
  /\ (DOMAIN w.fr) \ w.ev \subseteq Ids(o)
  /\ Ids(o) \subseteq DOMAIN w.fr
  /\ \A r \in Stored(o) : FrameOf(r) = w.fr[r.id]

Registered(o) == {Z} \cup {r.id : r \in {x \in Stored(o) : x.topic = XC /\ x.ctx = Z}}

RegistryRebuilt(o) ==
  /\ ToSet(o.contexts) = Registered(o)
  /\ \A e \in ToSet(o.accept) : e[2] = (e[1] \in Registered(o))

ContentPresent(o) ==
  \A r \in Stored(o) : r.hash # NOH => \E e \in ToSet(o.cas) : e[1] = r.hash /\ e[2]

(* the verdict: a set of <<property ids, reason>> *)
ImageVerdict(ops, nack, inflight, kind, o) ==
  IF ~o.open THEN {<<{"C04"}, "the store does not reopen">>}
  ELSE IF o.panic THEN {<<{"C04"}, "the reopened store panics when read">>}
  ELSE IF ~o.again THEN {<<{"C04"}, "the recovered store does not survive one more restart">>}
  ELSE LET wa == ApplyOps(W0, ops, nack)
           wb == IF inflight THEN ApplyOps(W0, ops, nack + 1) ELSE wa
       IN (IF PartitionsAgree(o) THEN {} ELSE {<<{"C04"}, "a write is partly present: the three partitions disagree">>})
          \cup (IF ~PartitionsAgree(o) \/ PathsAgree(o) THEN {}
                ELSE {<<{"C04"}, "a frame is reachable one way but not another">>})
          \cup (IF FitsWorld(o, wa) \/ FitsWorld(o, wb) THEN {}
                ELSE {<<{"C04"}, "neither Apply(acked) nor Apply(acked + in flight)">>})
          \cup (IF RegistryRebuilt(o) THEN {} ELSE {<<{"C04", "C07"}, "context registry is not a function of the stored frames">>})
          \cup (IF kind # "kill" \/ ContentPresent(o) THEN {}
                ELSE {<<{"C04", "C10"}, "a visible frame's content is missing after a process kill">>})
=============================================================================

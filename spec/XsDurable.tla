------------------------------- MODULE XsDurable -------------------------------
(***************************************************************************)
(* Code-layer model of what may survive a crash of src/store/mod.rs on top *)
(* of fjall 2.4.4 (journal/writer.rs, batch_reader.rs) and cacache.        *)
(*                                                                         *)
(* One client, operations one after the other.  Every operation is a short *)
(* program of micro steps (todo), one step per system-level effect:        *)
(*   cas    content reaches the CAS directory (before the frame, C10)      *)
(*   batch  Batch::commit: start marker, items, end marker are appended to *)
(*          the journal's user-space BufWriter (jbuf) and applied to the   *)
(*          memtables (mem); one batch = the three partition items         *)
(*   BufSpill  a record larger than the 8 KiB buffer makes BufWriter hand  *)
(*          a prefix of the buffered bytes to the OS while the batch is    *)
(*          still being written (jbuf -> jos)                              *)
(*   flush  BufWriter::flush (jbuf -> jos).  fjall 2.4.4 does this inside  *)
(*          every commit: Keyspace::batch() and PartitionHandle::insert    *)
(*          default to durability = PersistMode::Buffer unless the         *)
(*          keyspace is configured with manual_journal_persist (xs is not) *)
(*          - CommitFlush = TRUE.  An acknowledged write therefore always  *)
(*          survives a process kill; xs' own persist(SyncAll) only adds:   *)
(*   fsync  persist(SyncAll): File::sync_all (jos -> jdisk)                *)
(*   ack    the call returns                                               *)
(* CrashKill keeps jdisk and jos, loses jbuf.  CrashPower keeps jdisk and  *)
(* any prefix of jos at record granularity (a torn last batch).  Recover   *)
(* replays complete batches, drops an unterminated tail (and truncates the *)
(* journal there) and rebuilds the context registry from the zero context. *)
(*                                                                         *)
(* Not modelled: memtable flush / journal rotation / compaction (the       *)
(* conformance side samples them with bulk runs), concurrent clients.      *)
(*                                                                         *)
(* Switches (spec mutants, each must make TLC report a violation):         *)
(*   PersistIns / PersistRem  "sync" | "buffer" (no fsync) | "none"        *)
(*   CommitFlush = FALSE      fjall with manual_journal_persist: only then *)
(*                            does "no persist" lose acknowledged writes   *)
(*                            at a process kill                            *)
(*   OneBatch = FALSE         three separate inserts, each persisted       *)
(*   CasFirst = FALSE         content committed after the frame            *)
(***************************************************************************)
EXTENDS XsDurProps

CONSTANTS MaxOps, MaxCrashes, Topics, Hashes, TTLs, AllowBig, AllowImport,
          PersistIns, PersistRem, CommitFlush, OneBatch, CasFirst,
          Gen          \* TRUE: behaviour generation (no crashes, print the operation list)

VARIABLES ops,       \* operations started so far; the last one may still be in flight
          nack,      \* how many of them were acknowledged
          todo,      \* micro steps left for the operation in flight
          spill,     \* the batch just written was larger than the journal buffer
          jbuf, jos, jdisk,   \* journal records: user-space buffer / OS page cache / medium
          mem,       \* [stream, idxT, idxC]: the partitions as the process sees them
          contexts,  \* registry
          cas,       \* hashes whose content is in the CAS directory
          mode,      \* "run" | "crashed" | "recovered"
          kind,      \* kind of the last crash
          ncrash

vars == <<ops, nack, todo, spill, jbuf, jos, jdisk, mem, contexts, cas, mode, kind, ncrash>>

Mem0 == [stream |-> <<>>, idxT |-> {}, idxC |-> {}]
M0 == "m"

-----------------------------------------------------------------------------
(* journal records *)
RS(n)          == [t |-> "S", cnt |-> n, part |-> "", del |-> FALSE, id |-> 0, f |-> NoFrame]
RE             == [t |-> "E", cnt |-> 0, part |-> "", del |-> FALSE, id |-> 0, f |-> NoFrame]
RI(p, d, i, f) == [t |-> "I", cnt |-> 0, part |-> p, del |-> d, id |-> i, f |-> f]

ApplyItem(m, r) ==
  CASE r.part = "stream" -> [m EXCEPT !.stream = IF r.del THEN RemoveKey(@, r.id) ELSE Put(@, r.id, r.f)]
    [] r.part = "idxT"   -> [m EXCEPT !.idxT = IF r.del THEN @ \ {<<r.f.ctx, r.f.topic, r.id>>}
                                                ELSE @ \cup {<<r.f.ctx, r.f.topic, r.id>>}]
    [] r.part = "idxC"   -> [m EXCEPT !.idxC = IF r.del THEN @ \ {<<r.f.ctx, r.id>>}
                                                ELSE @ \cup {<<r.f.ctx, r.id>>}]

RECURSIVE ApplyItems(_, _)
ApplyItems(m, rs) == IF rs = <<>> THEN m
                     ELSE ApplyItems(IF Head(rs).t = "I" THEN ApplyItem(m, Head(rs)) ELSE m, Tail(rs))

(* journal/batch_reader.rs: a batch counts iff start, cnt items and end are all there; *)
(* the first incomplete batch ends the replay.  <<memtables, length of valid prefix>>  *)
RECURSIVE Replay(_, _, _)
Replay(j, pos, m) ==
  IF pos > Len(j) \/ j[pos].t # "S" THEN <<m, pos - 1>>
  ELSE LET n == j[pos].cnt
           last == pos + n + 1
       IN IF last > Len(j) \/ j[last].t # "E" \/ \E q \in (pos + 1)..(last - 1) : j[q].t # "I"
          THEN <<m, pos - 1>>
          ELSE Replay(j, last + 1, ApplyItems(m, SubSeq(j, pos + 1, last - 1)))

-----------------------------------------------------------------------------
(* programs *)
StepCas(h)       == [s |-> "cas", h |-> h, recs |-> <<>>, big |-> FALSE]
StepBatch(rs, b) == [s |-> "batch", h |-> NOH, recs |-> rs, big |-> b]
Step(s)          == [s |-> s, h |-> NOH, recs |-> <<>>, big |-> FALSE]

(* what follows the write of a batch: the commit's own flush, then xs' persist(p) *)
Persist(p) == IF CommitFlush
              THEN <<Step("flush")>> \o (IF p = "sync" THEN <<Step("fsync")>> ELSE <<>>)
              ELSE CASE p = "sync" -> <<Step("flush"), Step("fsync")>>
                     [] p = "buffer" -> <<Step("flush")>>
                     [] OTHER -> <<>>

Three(d, i, f) == <<RI("stream", d, i, f), RI("idxT", d, i, f), RI("idxC", d, i, f)>>

WriteProg(d, i, f, big, p) ==
  IF OneBatch
  THEN <<StepBatch(<<RS(3)>> \o Three(d, i, f) \o <<RE>>, big)>> \o Persist(p)
  ELSE <<StepBatch(<<RS(1), RI("stream", d, i, f), RE>>, big)>> \o Persist(p)
       \o <<StepBatch(<<RS(1), RI("idxT", d, i, f), RE>>, FALSE)>> \o Persist(p)
       \o <<StepBatch(<<RS(1), RI("idxC", d, i, f), RE>>, FALSE)>> \o Persist(p)

AppendProg(i, f, big) ==
  (IF CasFirst /\ f.hash # NOH THEN <<StepCas(f.hash)>> ELSE <<>>)
  \o WriteProg(FALSE, i, f, big, PersistIns)
  \o (IF ~CasFirst /\ f.hash # NOH THEN <<StepCas(f.hash)>> ELSE <<>>)
  \o <<Step("ack")>>

RemoveProg(i) ==
  IF i \in DOMAIN mem.stream
  THEN WriteProg(TRUE, i, mem.stream[i], FALSE, PersistRem) \o <<Step("ack")>>
  ELSE <<Step("ack")>>

-----------------------------------------------------------------------------
Init ==
  /\ ops = <<>> /\ nack = 0 /\ todo = <<>> /\ spill = FALSE
  /\ jbuf = <<>> /\ jos = <<>> /\ jdisk = <<>>
  /\ mem = Mem0 /\ contexts = {Z} /\ cas = {}
  /\ mode = "run" /\ kind = "none" /\ ncrash = 0

Idle == mode = "run" /\ todo = <<>> /\ Len(ops) < MaxOps
NextId == Len(ops) + 1
World == ApplyOps(W0, ops, Len(ops))

Begin(o, prog) ==
  /\ ops' = Append(ops, o)
  /\ todo' = prog
  /\ UNCHANGED <<nack, spill, jbuf, jos, jdisk, mem, contexts, cas, mode, kind, ncrash>>

OpAppend ==
  /\ Idle
  /\ \E t \in Topics, h \in Hashes, ttl \in TTLs, big \in (IF AllowBig THEN BOOLEAN ELSE {FALSE}),
        c \in contexts :
       /\ t = XC => (c = Z /\ ttl = "forever" /\ h = NOH)
       /\ LET f == [topic |-> t, ctx |-> c, ttl |-> ttl, meta |-> IF big THEN "mBig" ELSE M0, hash |-> h]
          IN Begin([op |-> "append", id |-> NextId, f |-> f], AppendProg(NextId, f, big))

OpImport ==
  /\ Idle /\ AllowImport
  /\ \E t \in Topics, low \in BOOLEAN :
       LET i == IF low THEN NextId - 100 ELSE NextId + 100
           f == [topic |-> t, ctx |-> Z, ttl |-> "forever", meta |-> M0, hash |-> NOH]
       IN Begin([op |-> "import", id |-> i, f |-> f], AppendProg(i, f, FALSE))

OpRemove ==
  /\ Idle
  /\ \E i \in DOMAIN World.fr :
       Begin([op |-> "remove", id |-> i, f |-> NoFrame], RemoveProg(i))

(* the collector removes a frame that fell out of a head:N window *)
OpGc ==
  /\ Idle
  /\ \E i \in World.ev \cap DOMAIN mem.stream :
       Begin([op |-> "gc", id |-> i, f |-> NoFrame], RemoveProg(i))

Busy == mode = "run" /\ todo # <<>>
Pop == todo' = Tail(todo)

CasWrite ==
  /\ Busy /\ Head(todo).s = "cas" /\ Pop
  /\ cas' = cas \cup {Head(todo).h}
  /\ spill' = FALSE
  /\ UNCHANGED <<ops, nack, jbuf, jos, jdisk, mem, contexts, mode, kind, ncrash>>

BatchWrite ==
  /\ Busy /\ Head(todo).s = "batch" /\ Pop
  /\ jbuf' = jbuf \o Head(todo).recs
  /\ mem' = ApplyItems(mem, Head(todo).recs)
  /\ contexts' = {Z} \cup {i \in DOMAIN mem'.stream : mem'.stream[i].topic = XC /\ mem'.stream[i].ctx = Z}
  /\ spill' = Head(todo).big
  /\ UNCHANGED <<ops, nack, jos, jdisk, cas, mode, kind, ncrash>>

BufSpill ==
  /\ Busy /\ spill
  /\ \E n \in 1..Len(jbuf) :
       /\ jos' = jos \o SubSeq(jbuf, 1, n)
       /\ jbuf' = SubSeq(jbuf, n + 1, Len(jbuf))
  /\ spill' = FALSE
  /\ UNCHANGED <<ops, nack, todo, jdisk, mem, contexts, cas, mode, kind, ncrash>>

Flush ==
  /\ Busy /\ Head(todo).s = "flush" /\ Pop
  /\ jos' = jos \o jbuf /\ jbuf' = <<>> /\ spill' = FALSE
  /\ UNCHANGED <<ops, nack, jdisk, mem, contexts, cas, mode, kind, ncrash>>

Fsync ==
  /\ Busy /\ Head(todo).s = "fsync" /\ Pop
  /\ jdisk' = jdisk \o jos /\ jos' = <<>> /\ spill' = FALSE
  /\ UNCHANGED <<ops, nack, jbuf, mem, contexts, cas, mode, kind, ncrash>>

Ack ==
  /\ Busy /\ Head(todo).s = "ack" /\ Pop
  /\ nack' = Len(ops) /\ spill' = FALSE
  /\ UNCHANGED <<ops, jbuf, jos, jdisk, mem, contexts, cas, mode, kind, ncrash>>

(* DESIGN 4.4: crash points are counted from the first acknowledged operation on *)
MayCrash == mode = "run" /\ ~Gen /\ nack >= 1 /\ ncrash < MaxCrashes

Crashed(k, surv) ==
  /\ mode' = "crashed" /\ kind' = k /\ ncrash' = ncrash + 1
  /\ jdisk' = surv /\ jos' = <<>> /\ jbuf' = <<>>
  /\ mem' = Mem0 /\ contexts' = {} /\ spill' = FALSE
  /\ UNCHANGED <<ops, nack, todo, cas>>

CrashKill == MayCrash /\ Crashed("kill", jdisk \o jos)

CrashPower == MayCrash /\ \E n \in 0..Len(jos) : Crashed("power", jdisk \o SubSeq(jos, 1, n))

Recover ==
  /\ mode = "crashed"
  /\ LET r == Replay(jdisk, 1, Mem0) IN
     /\ mem' = r[1]
     /\ jdisk' = SubSeq(jdisk, 1, r[2])
     /\ contexts' = {Z} \cup {i \in DOMAIN r[1].stream : r[1].stream[i].topic = XC /\ r[1].stream[i].ctx = Z}
  /\ mode' = "recovered"
  /\ UNCHANGED <<ops, nack, todo, spill, jbuf, jos, cas, kind, ncrash>>

(* the recovered store goes on; the operation that was in flight now either happened or not *)
Continue ==
  /\ mode = "recovered" /\ ncrash < MaxCrashes
  /\ LET keep == IF mem.stream = ApplyOps(W0, ops, Len(ops)).fr THEN Len(ops) ELSE nack IN
     /\ ops' = SubSeq(ops, 1, keep)
     /\ nack' = keep
  /\ todo' = <<>> /\ mode' = "run"
  /\ UNCHANGED <<spill, jbuf, jos, jdisk, mem, contexts, cas, kind, ncrash>>

Next == OpAppend \/ OpImport \/ OpRemove \/ OpGc \/ CasWrite \/ BatchWrite \/ BufSpill \/ Flush \/ Fsync
        \/ Ack \/ CrashKill \/ CrashPower \/ Recover \/ Continue

Spec == Init /\ [][Next]_vars

-----------------------------------------------------------------------------
(* what a user observes on the recovered store, computed the way the code does it *)
ImplGet(i) == IF i \in DOMAIN mem.stream THEN <<WithId(i, mem.stream[i])>> ELSE <<>>

AllIds == DOMAIN mem.stream \cup {e[3] : e \in mem.idxT} \cup {e[2] : e \in mem.idxC}
          \cup {ops[j].id : j \in 1..Len(ops)}
AllCtx == {Z} \cup {e[1] : e \in mem.idxT} \cup {e[1] : e \in mem.idxC} \cup contexts

Obs ==
  LET str == SortAsc(DOMAIN mem.stream) IN
  [open |-> TRUE, panic |-> FALSE, again |-> TRUE,
   stream   |-> [j \in 1..Len(str) |-> WithId(str[j], mem.stream[str[j]])],
   idxT     |-> SetToSeq(mem.idxT),
   idxC     |-> SetToSeq(mem.idxC),
   contexts |-> SetToSeq(contexts),
   \* read_sync(None): range over the primary partition
   readAll  |-> [j \in 1..Len(str) |-> WithId(str[j], mem.stream[str[j]])],
   \* read_sync(ctx): range over idx_context, primary lookup, dangling entries skipped
   readCtx  |-> SetToSeq({<<c, SortAsc({e[2] : e \in {x \in mem.idxC : x[1] = c /\ x[2] \in DOMAIN mem.stream}})>> : c \in AllCtx}),
   get      |-> SetToSeq({<<i, ImplGet(i)>> : i \in AllIds}),
   \* head: reverse prefix scan of idx_topic, find_map over the primary
   head     |-> SetToSeq({<<t, c, LET H == {e[3] : e \in {x \in mem.idxT : x[1] = c /\ x[2] = t /\ x[3] \in DOMAIN mem.stream}}
                                   IN IF H = {} THEN <<>> ELSE <<Max(H)>>>> : t \in Topics, c \in AllCtx}),
   cas      |-> SetToSeq({<<h, h \in cas>> : h \in Hashes}),
   accept   |-> SetToSeq({<<c, c \in contexts>> : c \in AllCtx})]

Verdict == ImageVerdict(ops, nack, Len(ops) > nack, kind, Obs)

(* C04 (+ crash halves of C07, C10) *)
INV_Durable == mode = "recovered" => (Verdict = {} \/ (PrintT(<<"WHY", kind, Verdict>>) /\ FALSE))

(* the memtables always equal the history of started operations (sanity of the model) *)
INV_MemIsHistory ==
  (mode = "run" /\ todo = <<>>) => mem.stream = ApplyOps(W0, ops, Len(ops)).fr

(* coverage witnesses: TLC must be able to reach these (checked as violated invariants in the self-test) *)
SomeTornBatchDropped == ~(mode = "recovered" /\ kind = "power" /\ Len(ops) > nack
                          /\ mem.stream = ApplyOps(W0, ops, nack).fr /\ mem.stream # ApplyOps(W0, ops, nack + 1).fr)
SomeInflightSurvives == ~(mode = "recovered" /\ Len(ops) > nack
                          /\ mem.stream # ApplyOps(W0, ops, nack).fr)

mcview == <<ops, nack, todo, spill, jbuf, jos, jdisk, mem, contexts, cas, mode, kind, ncrash>>
=============================================================================

---------------------------- MODULE XsGenerators ----------------------------
(***************************************************************************)
(* Code-layer model of xs generators (src/generators/serve.rs):             *)
(*   client      Spawn(name, ctx, script) / Send(name, ctx)                 *)
(*   serve loop  ReplayStep (compacted_frames: last .spawn / .spawn.error   *)
(*               per name), Threshold (start those that are spawns),        *)
(*               LiveStep: .spawn -> SpawnError (name already in the table, *)
(*               no content) | Start; .stop of a known name -> a respawn is *)
(*               scheduled (1 s later)                                      *)
(*   worker      Start (.start appended, duplex reader subscribed after it),*)
(*               Recv(i), Stop, Panic (scripts the worker thread cannot     *)
(*               handle: DESIGN 6 #12), FeedInput (duplex: next .send after *)
(*               the reader's cursor, of ANY context - as coded)            *)
(*   Respawn     the scheduled restart of the task                          *)
(*   Restart     kill at any point + start                                  *)
(* Named deviations of the code: the table and the compaction map are keyed *)
(* by name only (KeyByCtx = FALSE); Panics = TRUE.                          *)
(***************************************************************************)
EXTENDS Naturals, Sequences, FiniteSets, TLC, SequencesExt, FiniteSetsExt, Json

CONSTANTS Names, Ctxs, Scripts, MaxClient, MaxRestarts, MaxCycles,
          KeyByCtx,
          Panics,           \* TRUE as coded: "bad" scripts kill the worker after .start
          StopLast,         \* FALSE: .stop is appended before the last .recv
          StampSource,      \* FALSE: .recv carries the id of the .start frame instead of the spawn
          OneSpawnError,    \* FALSE: a refused spawn is answered twice
          CompactByRef,     \* FALSE as coded: at start-up ANY .spawn.error of the name is "the last word" on
                            \* the name, also one that refuses an older spawn than the accepted one (found
                            \* by TLC on this model; C17)
          FeedOnce,         \* FALSE: the duplex reader starts at the spawn frame (sends re-fed on respawn)
          Gen

VARIABLES log, phase, T, srvPos, compact, gens, work, respawn, nclient, nrestarts, inc, hist
vars == <<log, phase, T, srvPos, compact, gens, work, respawn, nclient, nrestarts, inc, hist>>

\* script kinds: "two" yields two strings then ends; "zero" ends at once; "dup" duplex echo (never ends);
\* "bad" does not parse / yields a non-string / a list value; "nocontent" spawn frame without content
NVal(sk) == IF sk = "two" THEN 2 ELSE 0
Bad(sk) == sk = "bad"
Duplex(sk) == sk = "dup"

Frame(k, n, c, g, sk, i) == [k |-> k, n |-> n, c |-> c, g |-> g, sk |-> sk, i |-> i, j |-> inc]
Key(n, c) == IF KeyByCtx THEN <<n, c>> ELSE <<n, 0>>
MapPut(m, k, v) == [x \in (DOMAIN m) \cup {k} |-> IF x = k THEN v ELSE m[x]]

Init == /\ log = <<>> /\ phase = "replay" /\ T = 0 /\ srvPos = 1 /\ compact = <<>> /\ gens = <<>> /\ work = <<>>
        /\ respawn = {} /\ nclient = 0 /\ nrestarts = 0 /\ inc = 0 /\ hist = <<>>

Client(k, n, c, sk) ==
  /\ nclient < MaxClient /\ nclient' = nclient + 1
  /\ log' = Append(log, Frame(k, n, c, 0, sk, 0))
  /\ hist' = IF Gen THEN Append(hist, [a |-> k, n |-> n, c |-> c, k |-> sk]) ELSE hist
  /\ UNCHANGED <<phase, T, srvPos, compact, gens, work, respawn, nrestarts, inc>>

\* spawn(): .start is appended, then the worker thread runs
StartTask(g) ==
  LET lg == Append(log, Frame("start", log[g].n, log[g].c, g, "-", 0)) IN
  /\ log' = lg
  /\ work' = MapPut(work, g, [ph |-> "run", i |-> 1, cycles |-> (IF g \in DOMAIN work THEN work[g].cycles + 1 ELSE 1),
                             cur |-> IF FeedOnce THEN Len(lg) ELSE g, st |-> Len(lg)])

TrySpawn(p) ==
  LET fr == log[p] IN
  IF Key(fr.n, fr.c) \in DOMAIN gens \/ fr.sk = "nocontent"
  THEN /\ log' = (IF OneSpawnError THEN Append(log, Frame("spawn.error", fr.n, fr.c, p, "-", 0))
                  ELSE Append(Append(log, Frame("spawn.error", fr.n, fr.c, p, "-", 0)), Frame("spawn.error", fr.n, fr.c, p, "-", 0)))
       /\ UNCHANGED <<gens, work>>
  ELSE /\ gens' = MapPut(gens, Key(fr.n, fr.c), p)
       /\ StartTask(p)

ReplayStep ==
  /\ phase = "replay" /\ srvPos <= T
  /\ LET fr == log[srvPos]  k == Key(fr.n, fr.c) IN
     compact' = IF fr.k = "spawn" \/ (fr.k = "spawn.error" /\ ~CompactByRef) THEN MapPut(compact, k, srvPos)
                ELSE IF fr.k = "spawn.error" /\ k \in DOMAIN compact /\ compact[k] = fr.g
                     THEN [x \in (DOMAIN compact) \ {k} |-> compact[x]]
                     ELSE compact
  /\ srvPos' = srvPos + 1
  /\ UNCHANGED <<log, phase, T, gens, work, respawn, nclient, nrestarts, inc, hist>>

\* threshold: one retained frame at a time
Threshold ==
  /\ phase = "replay" /\ srvPos > T
  /\ IF compact = <<>> THEN phase' = "live" /\ UNCHANGED <<log, compact, gens, work>>
     ELSE LET k == CHOOSE k \in DOMAIN compact : TRUE
              p == compact[k] IN
          /\ compact' = [x \in (DOMAIN compact) \ {k} |-> compact[x]]
          /\ IF log[p].k = "spawn" THEN TrySpawn(p) ELSE UNCHANGED <<log, gens, work>>
          /\ UNCHANGED phase
  /\ UNCHANGED <<T, srvPos, respawn, nclient, nrestarts, inc, hist>>

LiveStep ==
  /\ phase = "live" /\ srvPos <= Len(log)
  /\ LET fr == log[srvPos] IN
     IF fr.k = "spawn" THEN TrySpawn(srvPos) /\ UNCHANGED respawn
     ELSE IF fr.k = "stop" /\ Key(fr.n, fr.c) \in DOMAIN gens
          THEN respawn' = respawn \cup {gens[Key(fr.n, fr.c)]} /\ UNCHANGED <<log, gens, work>>
          ELSE UNCHANGED <<log, gens, work, respawn>>
  /\ srvPos' = srvPos + 1
  /\ UNCHANGED <<phase, T, compact, nclient, nrestarts, inc, hist>>

Respawn(g) ==
  /\ g \in respawn /\ work[g].cycles < MaxCycles
  /\ respawn' = respawn \ {g}
  /\ StartTask(g)
  /\ UNCHANGED <<phase, T, srvPos, compact, gens, nclient, nrestarts, inc, hist>>

Src(g) == IF StampSource THEN g ELSE work[g].st

Panic(g) ==
  /\ g \in DOMAIN work /\ work[g].ph = "run" /\ Bad(log[g].sk) /\ Panics
  /\ work' = [work EXCEPT ![g].ph = "panicked"]
  /\ UNCHANGED <<log, phase, T, srvPos, compact, gens, respawn, nclient, nrestarts, inc, hist>>

Recv(g) ==
  /\ g \in DOMAIN work /\ work[g].ph = "run" /\ ~Bad(log[g].sk) /\ ~Duplex(log[g].sk) /\ work[g].i <= NVal(log[g].sk)
  /\ ~(~StopLast /\ work[g].i = NVal(log[g].sk))          \* mutant: the last recv is emitted after the stop
  /\ log' = Append(log, Frame("recv", log[g].n, log[g].c, Src(g), "-", work[g].i))
  /\ work' = [work EXCEPT ![g].i = @ + 1]
  /\ UNCHANGED <<phase, T, srvPos, compact, gens, respawn, nclient, nrestarts, inc, hist>>

Stop(g) ==
  /\ g \in DOMAIN work /\ work[g].ph = "run" /\ ~Bad(log[g].sk) /\ ~Duplex(log[g].sk)
  /\ work[g].i > NVal(log[g].sk) \/ (~StopLast /\ work[g].i = NVal(log[g].sk) /\ NVal(log[g].sk) > 0)
  /\ log' = IF StopLast \/ NVal(log[g].sk) = 0 THEN Append(log, Frame("stop", log[g].n, log[g].c, g, "-", 0))
            ELSE Append(Append(log, Frame("stop", log[g].n, log[g].c, g, "-", 0)), Frame("recv", log[g].n, log[g].c, Src(g), "-", work[g].i))
  /\ work' = [work EXCEPT ![g].ph = "stopped"]
  /\ UNCHANGED <<phase, T, srvPos, compact, gens, respawn, nclient, nrestarts, inc, hist>>

\* duplex: the reader follows the whole stream after its cursor and forwards <name>.send frames
FeedInput(g) ==
  /\ g \in DOMAIN work /\ work[g].ph = "run" /\ Duplex(log[g].sk)
  /\ \E p \in (work[g].cur + 1)..Len(log) :
        /\ log[p].k = "send" /\ log[p].n = log[g].n
        /\ ~\E x \in (work[g].cur + 1)..(p - 1) : log[x].k = "send" /\ log[x].n = log[g].n
        /\ log' = Append(log, Frame("recv", log[g].n, log[g].c, Src(g), "-", p))
        /\ work' = [work EXCEPT ![g].cur = p]
  /\ UNCHANGED <<phase, T, srvPos, compact, gens, respawn, nclient, nrestarts, inc, hist>>

Restart ==
  /\ nrestarts < MaxRestarts /\ nrestarts' = nrestarts + 1
  /\ phase' = "replay" /\ T' = Len(log) /\ srvPos' = 1 /\ compact' = <<>> /\ gens' = <<>> /\ work' = <<>> /\ respawn' = {}
  /\ inc' = inc + 1
  /\ hist' = IF Gen THEN Append(hist, [a |-> "restart", n |-> "-", c |-> 0, k |-> "-"]) ELSE hist
  /\ UNCHANGED <<log, nclient>>

Next ==
  \/ \E n \in Names, c \in Ctxs, sk \in Scripts : Client("spawn", n, c, sk)
  \/ \E n \in Names, c \in Ctxs : Client("send", n, c, "-")
  \/ ReplayStep \/ Threshold \/ LiveStep
  \/ \E g \in DOMAIN work : Recv(g) \/ Stop(g) \/ Panic(g) \/ FeedInput(g) \/ Respawn(g)
  \/ Restart
Spec == Init /\ [][Next]_vars

\* ---------------------------------------------------------------- properties (from the log)
Idx == 1..Len(log)
SpawnsIdx == {g \in Idx : log[g].k = "spawn"}
Of(g, j) == SetToSortSeq({x \in Idx : log[x].g = g /\ log[x].j = j /\ log[x].k \in {"start", "recv", "stop"}}, <)
\* start recv* stop, repeated; the last cycle may be unfinished
C18_Lifecycle ==
  \A g \in SpawnsIdx : \A j \in 0..inc :
    LET sq == Of(g, j) IN
      \A x \in 1..Len(sq) :
        /\ (x = 1 => log[sq[x]].k = "start")
        /\ (x > 1 /\ log[sq[x]].k = "start" => log[sq[x - 1]].k = "stop")
        /\ (x > 1 /\ log[sq[x - 1]].k = "stop" => log[sq[x]].k = "start")
C18_RecvInOrderAndComplete ==
  \A g \in SpawnsIdx : ~Duplex(log[g].sk) => \A j \in 0..inc :
    LET sq == Of(g, j) IN
      \A x \in 1..Len(sq) :
        /\ (x > 1 /\ log[sq[x]].k = "recv" /\ log[sq[x - 1]].k = "start" => log[sq[x]].i = 1)
        /\ (x > 1 /\ log[sq[x]].k = "recv" /\ log[sq[x - 1]].k = "recv" => log[sq[x]].i = log[sq[x - 1]].i + 1)
        /\ (x > 1 /\ log[sq[x]].k = "recv" => log[sq[x - 1]].k # "stop")
        /\ (x > 1 /\ log[sq[x]].k = "stop" => IF NVal(log[g].sk) = 0 THEN log[sq[x - 1]].k = "start"
                                              ELSE log[sq[x - 1]].k = "recv" /\ log[sq[x - 1]].i = NVal(log[g].sk))
C18_SourceAndCtx ==
  \A x \in Idx : log[x].k \in {"start", "recv", "stop", "spawn.error"} =>
      /\ log[x].g \in SpawnsIdx /\ log[x].n = log[log[x].g].n /\ log[x].c = log[log[x].g].c
C18_AtMostOneSpawnError == \A g \in SpawnsIdx : Cardinality({x \in Idx : log[x].k = "spawn.error" /\ log[x].g = g}) <= 1
C18_RefusedNeverRuns ==
  \A g \in SpawnsIdx : (\E x \in Idx : log[x].k = "spawn.error" /\ log[x].g = g /\ log[x].j = log[g].j) =>
      ~\E y \in Idx : log[y].g = g /\ log[y].j = log[g].j /\ log[y].k \in {"start", "recv", "stop"}
Quiet == /\ phase = "live" /\ srvPos > Len(log)
         /\ \A g \in DOMAIN work : work[g].ph \in {"stopped", "panicked"}
                \/ (Duplex(log[g].sk) /\ ~\E p \in (work[g].cur + 1)..Len(log) : log[p].k = "send" /\ log[p].n = log[g].n)
         /\ \A g \in respawn : work[g].cycles >= MaxCycles
C18_EverySpawnAnswered ==
  Quiet => \A g \in SpawnsIdx : log[g].j = inc => \E x \in Idx : log[x].g = g /\ log[x].k \in {"start", "spawn.error"}
\* #12 as a property: a started task ends with .stop (fails as coded for "bad" scripts)
C18_StartedTaskStops ==
  Quiet => \A g \in DOMAIN work : ~Duplex(log[g].sk) => (LET sq == Of(g, inc) IN Len(sq) > 0 /\ log[sq[Len(sq)]].k = "stop")
\* duplex: within one run of the task, the sends after its .start are echoed once each, in order
C18_SendsOnceInOrder ==
  \A g \in SpawnsIdx : Duplex(log[g].sk) => \A j \in 0..inc :
    LET sq == Of(g, j)
        R == {x \in 1..Len(sq) : log[sq[x]].k = "recv"}
    IN  /\ \A x, y \in R : x < y => log[sq[x]].i < log[sq[y]].i
        \* only sends appended while the task is running (after its .start)
        /\ \A x \in R : log[sq[x]].i > Max({sq[y] : y \in {y \in 1..x : log[sq[y]].k = "start"}} \cup {0})
\* C17, per (context, name): the generator whose latest spawn of the key was accepted runs again
LatestSpawn(n, c) == LET S == {g \in SpawnsIdx : log[g].n = n /\ log[g].c = c} IN IF S = {} THEN 0 ELSE Max(S)
Accepted(g) == \E x \in Idx : log[x].g = g /\ log[x].k = "start"
C17_GeneratorsRestored ==
  (Quiet /\ nrestarts > 0) => \A n \in Names, c \in Ctxs :
     LET g == LatestSpawn(n, c) IN (g # 0 /\ Accepted(g) /\ log[g].j < inc) => \E x \in Idx : log[x].g = g /\ log[x].k = "start" /\ log[x].j = inc

\* ---------------------------------------------------------------- liveness (MC_proc_live_g.cfg, no VIEW, no CONSTRAINT)
\* the serve loop and the generator tasks run by themselves; clients, restarts and respawn cycles are bounded
Fairness == /\ WF_vars(ReplayStep \/ Threshold \/ LiveStep)
            /\ WF_vars(\E g \in DOMAIN work : Recv(g) \/ Stop(g) \/ Panic(g) \/ FeedInput(g) \/ Respawn(g))
FairSpec == Spec /\ Fairness
L_Quiet == <>[]Quiet
\* C18 as progress: every spawn of the current incarnation ends up answered (.start or .spawn.error), every started
\* terminating pipeline ends up with its .stop; C17: the accepted latest spawns end up started again after a restart
L_EverySpawnAnswered ==
  <>[](\A g \in SpawnsIdx : log[g].j = inc => \E x \in Idx : log[x].g = g /\ log[x].k \in {"start", "spawn.error"})
L_StartedTaskStops ==
  <>[](\A g \in DOMAIN work : ~Duplex(log[g].sk) => (LET sq == Of(g, inc) IN Len(sq) > 0 /\ log[sq[Len(sq)]].k = "stop"))
L_Restored ==
  <>[](nrestarts > 0 => \A n \in Names, c \in Ctxs :
     LET g == LatestSpawn(n, c) IN (g # 0 /\ Accepted(g) /\ log[g].j < inc) => \E x \in Idx : log[x].g = g /\ log[x].k = "start" /\ log[x].j = inc)

GenInv == (Gen /\ nclient = MaxClient) => PrintT(<<"ACTS", ToJson(hist)>>)
mcview == <<log, phase, T, srvPos, compact, gens, work, respawn, nclient, nrestarts, inc>>
=============================================================================

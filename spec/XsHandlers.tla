----------------------------- MODULE XsHandlers -----------------------------
(***************************************************************************)
(* Code-layer model of xs handlers (src/handlers/serve.rs, handler.rs), one *)
(* action per step of the code:                                             *)
(*   client      Register / Unregister / Data / DataF (a trigger on which   *)
(*               failing scripts raise an error)                            *)
(*   serve loop  ReplayStep (history up to the threshold, topic_states),    *)
(*               StartCompacted / LiveStart (create the instance: its task  *)
(*               is spawned, i.e. Subscribe becomes enabled), Announce      *)
(*               (.registered is appended by the serve loop itself, after   *)
(*               tokio::spawn), RejectInvalid (.unregistered with error)    *)
(*   instance    Subscribe (store.read in the spawned task), Examine (skip  *)
(*               rules of Handler::serve), Eval (ok / err), EmitOut(i)      *)
(*               (one store.append per buffered frame, then the return      *)
(*               frame), EmitUnregistered                                   *)
(*   Restart     the process dies at any point and serve() starts again     *)
(* The stream `log` is the only thing the three parts share.                *)
(*                                                                          *)
(* The code is modelled AS IT IS.  Its known deviations are flags:          *)
(*   KeyByCtx = FALSE          compaction map keyed by name only (DESIGN 6  *)
(*                             #10; C17)                                    *)
(*   SubBeforeAnnounce = FALSE Announce is not ordered after Subscribe      *)
(*                             (#9; C16)                                    *)
(*   PatientClient = FALSE     a client may register again before the       *)
(*                             previous registration has settled (#9b; C16) *)
(*   CompactClientUnreg = FALSE an .unregister the instance had not answered *)
(*                             when the server died is lost (found by TLC   *)
(*                             on this model; C17 / C16)                    *)
(* With the flags at TRUE (the repaired design) every invariant holds; as   *)
(* coded, exactly the invariants named for the deviation fail.              *)
(* The other flags switch single mechanisms off (spec mutants): each must   *)
(* make TLC report a violation (vacuity guard).                             *)
(***************************************************************************)
EXTENDS Naturals, Sequences, FiniteSets, TLC, SequencesExt, FiniteSetsExt, Json

CONSTANTS Names, Ctxs, Scripts, MaxClient, MaxRestarts, MaxData,
          KeyByCtx, SubBeforeAnnounce, PatientClient,
          OwnFilter,        \* skip frames stamped with the own handler id
          RegSkipLe,        \* registration traffic with id <= own id is skipped (FALSE: <)
          AtomicCall,       \* outputs are emitted only after the closure returned Ok
          StampAll,         \* every output frame is stamped (FALSE: the return frame is not)
          ForceCtx,         \* output context overwritten with the handler's
          UnregOnce,        \* .unregistered appended once (FALSE: twice)
          CompactUnreg,     \* start-up compaction honours .unregistered
          CompactClientUnreg, \* FALSE as coded: a client .unregister that no instance has answered yet
                            \* (the server died first) is ignored by the compaction - the handler comes back
          Gen               \* generation mode: keep the client history, print it

VARIABLES log, up, phase, T, srvPos, tstates, starting, inst, nclient, nrestarts, ndata, inc,
          invoked,          \* ghost: <<inc, h>> -> sequence of log indices evaluated
          hist              \* client actions in order (generation mode only)

vars == <<log, up, phase, T, srvPos, tstates, starting, inst, nclient, nrestarts, ndata, inc, invoked, hist>>

\* ---------------------------------------------------------------- script kinds
\* "echo"  tail, one output per data frame            "echoH" the same from head
\* "two"   tail, two outputs, fails on DataF          "bad"   does not parse
\* "all"   tail, reacts to every frame it is shown
Valid(sk) == sk # "bad"
FromHead(sk) == sk = "echoH"
NOut(sk) == IF sk = "two" THEN 2 ELSE 1
FailsOn(sk, fr) == sk = "two" /\ fr.k = "dataF"
ReactsTo(sk, fr) == sk = "all" \/ fr.k \in {"data", "dataF"}

Frame(k, n, c, h, f, sk, e, i) == [k |-> k, n |-> n, c |-> c, h |-> h, f |-> f, sk |-> sk, e |-> e, i |-> i, j |-> inc]
Key(n, c) == IF KeyByCtx THEN <<n, c>> ELSE <<n, 0>>
OtherCtx(c) == CHOOSE x \in Ctxs : x # c \/ Cardinality(Ctxs) = 1

Init ==
  /\ log = <<>> /\ up = TRUE /\ phase = "replay" /\ T = 0 /\ srvPos = 1 /\ tstates = <<>> /\ starting = <<>>
  /\ inst = <<>> /\ nclient = 0 /\ nrestarts = 0 /\ ndata = 0 /\ inc = 0 /\ invoked = <<>> /\ hist = <<>>

MapPut(m, k, v) == [x \in (DOMAIN m) \cup {k} |-> IF x = k THEN v ELSE m[x]]
MapDel(m, k) == [x \in (DOMAIN m) \ {k} |-> m[x]]

InstQuiet(h) == inst[h].sub /\ inst[h].ann /\ (inst[h].stopped \/ (inst[h].ph = "idle" /\ inst[h].pos > Len(log)))
Quiet == /\ up /\ phase = "live" /\ srvPos > Len(log) /\ starting = <<>>
         /\ \A h \in DOMAIN inst : InstQuiet(h)

\* ---------------------------------------------------------------- client
Client(k, n, c, sk) ==
  /\ nclient < MaxClient /\ nclient' = nclient + 1
  /\ (PatientClient /\ k \in {"register", "unregister"}) => Quiet
  /\ (k \in {"data", "dataF"}) => ndata < MaxData
  /\ ndata' = IF k \in {"data", "dataF"} THEN ndata + 1 ELSE ndata
  /\ log' = Append(log, Frame(k, n, c, 0, 0, sk, FALSE, 0))
  /\ hist' = IF Gen THEN Append(hist, [a |-> k, n |-> n, c |-> c, k |-> sk]) ELSE hist
  /\ UNCHANGED <<up, phase, T, srvPos, tstates, starting, inst, nrestarts, inc, invoked>>

\* ---------------------------------------------------------------- serve loop
\* history up to the threshold: remember the latest .register per key, forget it when an
\* .unregister / .unregistered naming the same handler id follows (client .unregister frames
\* carry no handler id, so only the instance's own .unregistered counts)
ReplayStep ==
  /\ up /\ phase = "replay" /\ srvPos <= T
  /\ LET fr == log[srvPos] IN
     tstates' = IF fr.k = "register" THEN MapPut(tstates, Key(fr.n, fr.c), srvPos)
                ELSE IF CompactUnreg /\ fr.k = "unregistered" /\ fr.h # 0
                        /\ Key(fr.n, fr.c) \in DOMAIN tstates /\ tstates[Key(fr.n, fr.c)] = fr.h
                     THEN MapDel(tstates, Key(fr.n, fr.c))
                ELSE IF CompactClientUnreg /\ fr.k = "unregister" /\ Key(fr.n, fr.c) \in DOMAIN tstates
                     THEN MapDel(tstates, Key(fr.n, fr.c))
                     ELSE tstates
  /\ srvPos' = srvPos + 1
  /\ UNCHANGED <<log, up, phase, T, starting, inst, nclient, nrestarts, ndata, inc, invoked, hist>>

\* threshold reached: the retained registrations are started in id order
Threshold ==
  /\ up /\ phase = "replay" /\ srvPos > T
  /\ starting' = SetToSortSeq({tstates[k] : k \in DOMAIN tstates}, <)
  /\ phase' = "live"
  /\ UNCHANGED <<log, up, T, srvPos, tstates, inst, nclient, nrestarts, ndata, inc, invoked, hist>>

NewInst(h) == [ctx |-> log[h].c, name |-> log[h].n, sk |-> log[h].sk, sub |-> FALSE, ann |-> FALSE, start |-> 0,
               pos |-> 0, stopped |-> FALSE, ph |-> "idle", cur |-> 0, outi |-> 0, failed |-> FALSE, unregs |-> 0]

\* start_handler: Handler::from_frame ok -> the instance exists, its task is spawned
StartOne(h) ==
  IF Valid(log[h].sk)
  THEN /\ inst' = MapPut(inst, h, NewInst(h))
       /\ invoked' = MapPut(invoked, <<inc, h>>, <<>>)
       /\ UNCHANGED log
  ELSE /\ log' = Append(log, Frame("unregistered", log[h].n, log[h].c, h, 0, "-", TRUE, 0))
       /\ UNCHANGED <<inst, invoked>>

\* the serve loop is sequential: a started handler is announced before the next frame is looked at
Announcing == \E h \in DOMAIN inst : ~inst[h].ann

StartCompacted ==
  /\ up /\ phase = "live" /\ starting # <<>> /\ ~Announcing
  /\ StartOne(Head(starting))
  /\ starting' = Tail(starting)
  /\ UNCHANGED <<up, phase, T, srvPos, tstates, nclient, nrestarts, ndata, inc, hist>>

LiveStep ==
  /\ up /\ phase = "live" /\ starting = <<>> /\ ~Announcing /\ srvPos <= Len(log)
  /\ IF log[srvPos].k = "register" THEN StartOne(srvPos) ELSE UNCHANGED <<log, inst, invoked>>
  /\ srvPos' = srvPos + 1
  /\ UNCHANGED <<up, phase, T, tstates, starting, nclient, nrestarts, ndata, inc, hist>>

Announce(h) ==
  /\ up /\ h \in DOMAIN inst /\ ~inst[h].ann
  /\ (SubBeforeAnnounce => inst[h].sub)
  /\ inst' = [inst EXCEPT ![h].ann = TRUE]
  /\ log' = Append(log, Frame("registered", inst[h].name, inst[h].ctx, h, 0, "-", FALSE, 0))
  /\ UNCHANGED <<up, phase, T, srvPos, tstates, starting, nclient, nrestarts, ndata, inc, invoked, hist>>

\* ---------------------------------------------------------------- instance
Subscribe(h) ==
  /\ up /\ h \in DOMAIN inst /\ ~inst[h].sub
  /\ LET p == IF FromHead(inst[h].sk) THEN 1 ELSE Len(log) + 1 IN
     inst' = [inst EXCEPT ![h].sub = TRUE, ![h].pos = p, ![h].start = p]
  /\ UNCHANGED <<log, up, phase, T, srvPos, tstates, starting, nclient, nrestarts, ndata, inc, invoked, hist>>

OwnReg(h, fr) == fr.n = inst[h].name /\ fr.k \in {"register", "unregister"}
RegSkipped(h, p) == IF RegSkipLe THEN p <= h ELSE p < h

Examine(h) ==
  /\ up /\ h \in DOMAIN inst /\ inst[h].sub /\ ~inst[h].stopped /\ inst[h].ph = "idle" /\ inst[h].pos <= Len(log)
  /\ LET p == inst[h].pos
         fr == log[p]
     IN IF fr.c # inst[h].ctx \/ (OwnReg(h, fr) /\ RegSkipped(h, p)) \/ (OwnFilter /\ fr.h = h)
        THEN inst' = [inst EXCEPT ![h].pos = p + 1]
        ELSE IF OwnReg(h, fr)
        THEN inst' = [inst EXCEPT ![h].pos = p + 1, ![h].ph = "unreg", ![h].cur = p, ![h].failed = FALSE]
        ELSE inst' = [inst EXCEPT ![h].pos = p + 1, ![h].ph = "eval", ![h].cur = p]
  /\ UNCHANGED <<log, up, phase, T, srvPos, tstates, starting, nclient, nrestarts, ndata, inc, invoked, hist>>

Eval(h) ==
  /\ up /\ h \in DOMAIN inst /\ inst[h].ph = "eval"
  /\ LET fr == log[inst[h].cur]
         sk == inst[h].sk
     IN /\ invoked' = [invoked EXCEPT ![<<inc, h>>] = Append(@, inst[h].cur)]
        /\ IF FailsOn(sk, fr)
           THEN IF AtomicCall THEN inst' = [inst EXCEPT ![h].ph = "unreg", ![h].failed = TRUE]
                \* mutant: the buffer is drained before the error is looked at - the first append escapes
                ELSE inst' = [inst EXCEPT ![h].ph = "emit", ![h].outi = 1, ![h].failed = TRUE]
           ELSE IF ReactsTo(sk, fr)
                THEN inst' = [inst EXCEPT ![h].ph = "emit", ![h].outi = 1, ![h].failed = FALSE]
                ELSE inst' = [inst EXCEPT ![h].ph = "idle"]
  /\ UNCHANGED <<log, up, phase, T, srvPos, tstates, starting, nclient, nrestarts, ndata, inc, hist>>

EmitOut(h) ==
  /\ up /\ h \in DOMAIN inst /\ inst[h].ph = "emit"
  /\ LET i == inst[h].outi
         last == i = NOut(inst[h].sk)
         c == IF ForceCtx \/ i > 1 THEN inst[h].ctx ELSE OtherCtx(inst[h].ctx)
         st == IF StampAll \/ ~last THEN h ELSE 0
     IN /\ log' = Append(log, Frame("out", inst[h].name, c, st, inst[h].cur, "-", FALSE, i))
        /\ inst' = IF inst[h].failed THEN [inst EXCEPT ![h].ph = "unreg"]
                   ELSE IF last THEN [inst EXCEPT ![h].ph = "idle"] ELSE [inst EXCEPT ![h].outi = i + 1]
  /\ UNCHANGED <<up, phase, T, srvPos, tstates, starting, nclient, nrestarts, ndata, inc, invoked, hist>>

EmitUnregistered(h) ==
  /\ up /\ h \in DOMAIN inst /\ inst[h].ph = "unreg"
  /\ log' = Append(log, Frame("unregistered", inst[h].name, inst[h].ctx, h, inst[h].cur, "-", inst[h].failed, 0))
  /\ inst' = IF UnregOnce \/ inst[h].unregs = 1
             THEN [inst EXCEPT ![h].stopped = TRUE, ![h].ph = "idle", ![h].unregs = @ + 1]
             ELSE [inst EXCEPT ![h].unregs = @ + 1]
  /\ UNCHANGED <<up, phase, T, srvPos, tstates, starting, nclient, nrestarts, ndata, inc, invoked, hist>>

\* ---------------------------------------------------------------- restart (kill at any point + start)
Restart ==
  /\ nrestarts < MaxRestarts /\ nrestarts' = nrestarts + 1
  /\ up' = TRUE /\ phase' = "replay" /\ T' = Len(log) /\ srvPos' = 1 /\ tstates' = <<>> /\ starting' = <<>>
  /\ inst' = <<>> /\ inc' = inc + 1
  /\ hist' = IF Gen THEN Append(hist, [a |-> "restart", n |-> "-", c |-> 0, k |-> "-"]) ELSE hist
  /\ UNCHANGED <<log, nclient, ndata, invoked>>

Next ==
  \/ \E n \in Names, c \in Ctxs, sk \in Scripts : Client("register", n, c, sk)
  \/ \E n \in Names, c \in Ctxs : Client("unregister", n, c, "-")
  \/ \E c \in Ctxs : Client("data", "t", c, "-") \/ Client("dataF", "t", c, "-")
  \/ ReplayStep \/ Threshold \/ StartCompacted \/ LiveStep
  \/ \E h \in DOMAIN inst : Announce(h) \/ Subscribe(h) \/ Examine(h) \/ Eval(h) \/ EmitOut(h) \/ EmitUnregistered(h)
  \/ Restart

Spec == Init /\ [][Next]_vars

\* ---------------------------------------------------------------- properties
Idx == 1..Len(log)

\* frames instance (j, h) is owed from position p on, in order, until it is stopped
Passes(h, x) == LET fr == log[x] IN
  /\ fr.c = log[h].c /\ fr.h # h
  /\ ~(fr.n = log[h].n /\ fr.k \in {"register", "unregister"} /\ x <= h)
StopIdx(h, p) == LET S == {x \in Idx : x >= p /\ x > h /\ log[x].c = log[h].c /\ log[x].n = log[h].n
                                        /\ log[x].k \in {"register", "unregister"}} IN IF S = {} THEN Len(log) + 1 ELSE Min(S)
FailIdx(h, p) == LET S == {x \in Idx : x >= p /\ Passes(h, x) /\ FailsOn(log[h].sk, log[x])} IN IF S = {} THEN Len(log) + 1 ELSE Min(S)
Eligible(h, p) == LET stop == StopIdx(h, p)  fail == FailIdx(h, p)
                      S == {x \in Idx : x >= p /\ Passes(h, x) /\ x < stop /\ x <= fail} IN SetToSortSeq(S, <)

\* C14
C14_InvokedIsPrefixOfEligible ==
  \A h \in DOMAIN inst : inst[h].sub => IsPrefix(invoked[<<inc, h>>], Eligible(h, inst[h].start))
C14_EligibleAllInvokedAtQuiet ==
  Quiet => \A h \in DOMAIN inst : invoked[<<inc, h>>] = Eligible(h, inst[h].start)
OutsOf(h, f) == {x \in Idx : log[x].k = "out" /\ log[x].h = h /\ log[x].f = f}
\* the outputs of one instance: calls do not interleave (a call = same trigger, same incarnation)
C14_OneAtATime ==
  \A x, y, z \in Idx : (x < y /\ y < z /\ log[x].k = "out" /\ log[y].k = "out" /\ log[z].k = "out" /\ log[x].h # 0
                         /\ log[x].h = log[y].h /\ log[y].h = log[z].h /\ log[x].f = log[z].f /\ log[x].j = log[z].j)
                        => (log[y].f = log[x].f /\ log[y].j = log[x].j)
C14_NoForeignCtx == \A x \in Idx : (log[x].k = "out" /\ log[x].h # 0) => log[log[x].f].c = log[log[x].h].c
C14_NeverOwnOutput == \A x \in Idx : (log[x].k = "out" /\ log[x].h # 0) => log[log[x].f].h # log[x].h
C14_NoOldRegistrationTraffic ==
  \A x \in Idx : (log[x].k \in {"out", "unregistered"} /\ log[x].h # 0 /\ log[x].f # 0) =>
      ~(log[log[x].f].k \in {"register", "unregister"} /\ log[log[x].f].n = log[x].n /\ log[x].f <= log[x].h)

\* C15
C15_OutputsStamped == \A x \in Idx : log[x].k = "out" => log[x].h # 0 /\ log[x].f # 0
C15_OutputsInHandlerCtx == \A x \in Idx : (log[x].k = "out" /\ log[x].h # 0) => log[x].c = log[log[x].h].c
C15_OrderWithinCall ==
  \A x, y \in Idx : (log[x].k = "out" /\ log[y].k = "out" /\ log[x].h = log[y].h /\ log[x].f = log[y].f /\ log[x].j = log[y].j
                      /\ x < y /\ log[x].h # 0) => log[x].i < log[y].i
C15_AllOrNothingPerCall ==
  \A u \in Idx : (log[u].k = "unregistered" /\ log[u].e /\ log[u].f # 0) =>
      ~\E x \in Idx : log[x].k = "out" /\ log[x].h = log[u].h /\ log[x].f = log[u].f /\ log[x].j = log[u].j

\* C16
UnregsOf(h) == {x \in Idx : log[x].k = "unregistered" /\ log[x].h = h}
C16_StopAnnouncedOnce == \A h \in Idx : Cardinality(UnregsOf(h)) <= 1
C16_StoppedIsSilent ==
  \A u \in Idx : log[u].k = "unregistered" => ~\E x \in Idx : x > u /\ log[x].h = log[u].h /\ log[x].k = "out"
\* for every trigger at most one responder among the instances registered before it, the latest
Responders(t, n) == {log[x].h : x \in {x \in Idx : log[x].k = "out" /\ log[x].f = t /\ log[x].n = n /\ log[x].h # 0 /\ log[x].h < t}}
C16_AtMostOneResponder ==
  \A t \in Idx : log[t].k \in {"data", "dataF"} => \A n \in Names : Cardinality(Responders(t, n)) <= 1
RegIdx(h) == LET S == {x \in Idx : log[x].k = "registered" /\ log[x].h = h /\ x > T} IN IF S = {} THEN 0 ELSE Max(S)
Running == {h \in DOMAIN inst : ~inst[h].stopped}
C16_RegisteredImpliesSubscribed ==
  Quiet => \A h \in Running : \A x \in Idx :
     (log[x].k \in {"data", "dataF"} /\ log[x].c = inst[h].ctx /\ RegIdx(h) # 0 /\ x > RegIdx(h) /\ x < StopIdx(h, RegIdx(h)) /\ x <= FailIdx(h, RegIdx(h)))
        => \E y \in 1..Len(invoked[<<inc, h>>]) : invoked[<<inc, h>>][y] = x
C16_InvalidNeverActive == \A x \in Idx : (log[x].h # 0 /\ log[x].k \in {"out", "registered"}) => Valid(log[log[x].h].sk)
C16_ReplacedIsStopped ==
  Quiet => \A h \in Running : StopIdx(h, h + 1) > Len(log)

\* C17: keyed by (ctx, name), from the log alone
LatestReg(n, c) == LET S == {x \in Idx : log[x].k = "register" /\ log[x].n = n /\ log[x].c = c} IN IF S = {} THEN 0 ELSE Max(S)
ActiveSet == {h \in {LatestReg(n, c) : n \in Names, c \in Ctxs} \ {0} :
                /\ Valid(log[h].sk) /\ UnregsOf(h) = {}
                /\ ~\E x \in Idx : x > h /\ log[x].k = "unregister" /\ log[x].n = log[h].n /\ log[x].c = log[h].c}
\* the named deviation CompactClientUnreg = FALSE exempts exactly the handlers whose .unregister was
\* still unanswered when the server died
LostUnregs == {h \in {LatestReg(n, c) : n \in Names, c \in Ctxs} \ {0} :
                /\ Valid(log[h].sk) /\ UnregsOf(h) = {}
                /\ \E x \in Idx : x > h /\ x <= T /\ log[x].k = "unregister" /\ log[x].n = log[h].n /\ log[x].c = log[h].c}
C17_RestoresActive == (Quiet /\ nrestarts > 0) => Running = (IF CompactClientUnreg THEN ActiveSet ELSE ActiveSet \cup LostUnregs)
C17_NoReexecution ==
  \A h \in DOMAIN inst : ~FromHead(inst[h].sk) => \A y \in 1..Len(invoked[<<inc, h>>]) : invoked[<<inc, h>>][y] > T

\* ---------------------------------------------------------------- generation
GenInv == (Gen /\ nclient = MaxClient) => PrintT(<<"ACTS", ToJson(hist)>>)

mcview == <<log, up, phase, T, srvPos, tstates, starting, inst, nclient, nrestarts, ndata, inc, invoked>>
=============================================================================

------------------------------- MODULE XsKeys -------------------------------
(***************************************************************************)
(* The key layout of the topic index, ctx || topic || 0x00 || id           *)
(* (src/store/mod.rs idx_topic_key_prefix / idx_topic_key_from_frame /     *)
(* idx_topic_frame_id_from_key), over short byte strings.  It carries the  *)
(* argument behind C05 (head is the newest frame of exactly that topic)    *)
(* and C08 (a head-TTL sweep of one topic never touches another, even one  *)
(* that shares a prefix): a prefix scan with Prefix(c, t1) meets the key   *)
(* of a frame (c2, t2, i) iff c2 = c and t2 = t1 - provided no topic       *)
(* contains the delimiter, which is why a NUL byte must be rejected.       *)
(* Contexts and ids are fixed-width (2 bytes here, 16 in the code).        *)
(***************************************************************************)
EXTENDS Naturals, Sequences, SequencesExt, FiniteSets, TLC

CONSTANTS Bytes,       \* alphabet of topic bytes, not containing the delimiter 0
          MaxLen       \* longest topic

Delim == 0
Ctxs == {<<1, 1>>, <<1, 2>>, <<2, 1>>}          \* fixed width, adjacent values included
FrameIds == {<<1, 1>>, <<1, 2>>, <<255, 255>>}

TopicsOver(A) == UNION {[1..n -> A] : n \in 0..MaxLen}
Topics == TopicsOver(Bytes)
TopicsWithNul == TopicsOver(Bytes \cup {Delim})

Prefix(c, t) == c \o t \o <<Delim>>
Key(c, t, i) == Prefix(c, t) \o i
IdOf(key) == SubSeq(key, Len(key) - 1, Len(key))             \* the last 2 (16) bytes

\* lexicographic order of byte strings (fjall's key order)
RECURSIVE Less(_, _)
Less(a, b) == IF a = <<>> THEN b # <<>>
              ELSE IF b = <<>> THEN FALSE
              ELSE IF a[1] # b[1] THEN a[1] < b[1]
              ELSE Less(Tail(a), Tail(b))

(* C05 / C08: the scan of one topic sees exactly that topic's keys *)
PrefixExact ==
  \A c1, c2 \in Ctxs, t1, t2 \in Topics, i \in FrameIds :
     IsPrefix(Prefix(c1, t1), Key(c2, t2, i)) <=> (c1 = c2 /\ t1 = t2)

(* the id comes back from the end of the key, whatever the topic *)
IdRecovered == \A c \in Ctxs, t \in Topics, i \in FrameIds : IdOf(Key(c, t, i)) = i

(* within one topic keys are ordered by id: the reverse scan meets the newest first *)
OrderedById ==
  \A c \in Ctxs, t \in Topics, i, j \in FrameIds : Less(i, j) <=> Less(Key(c, t, i), Key(c, t, j))

(* ... and this is what goes wrong if a topic may contain the delimiter: some other topic's key *)
(* falls into the scan (TLC must find PrefixExact violated over TopicsWithNul)                  *)
PrefixExactWithNul ==
  \A c1, c2 \in Ctxs, t1, t2 \in TopicsWithNul, i \in FrameIds :
     IsPrefix(Prefix(c1, t1), Key(c2, t2, i)) <=> (c1 = c2 /\ t1 = t2)
NulBreaksIt == ~PrefixExactWithNul

ASSUME PrefixExact /\ IdRecovered /\ OrderedById /\ NulBreaksIt

VARIABLE dummy
Spec == dummy = 0 /\ [][UNCHANGED dummy]_dummy
=============================================================================

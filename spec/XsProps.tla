------------------------------- MODULE XsProps -------------------------------
(***************************************************************************)
(* The user-level statements of the store properties (C01 C05 C06 C07 C08  *)
(* C09 C20), as pure operators over a ghost record g.  They are used twice:*)
(*   - XsStore (code layer): TLC checks, in every reachable state and for  *)
(*     every read parameter, that what the mechanism computes is accepted; *)
(*   - TraceStore (observer): TLC checks every observation recorded from   *)
(*     the real store with the same operators.                             *)
(*                                                                         *)
(* g = [acc      : id -> frame accepted (stored) so far,                   *)
(*      removed  : ids explicitly removed,                                 *)
(*      gone     : ids known to have been collected,                       *)
(*      clock    : model time,                                             *)
(*      headKs   : <<ctx,topic>> -> set of K of the head:K frames appended,*)
(*      evictable: ids that have been outside the K newest of their topic, *)
(*      eph      : ids handed out for ephemeral appends,                   *)
(*      lastApp  : last id returned by an append]                          *)
(*                                                                         *)
(* Every *Verdict operator returns the set of property ids the observation *)
(* violates ({} = accepted).                                               *)
(***************************************************************************)
EXTENDS Integers, Sequences, FiniteSets, SequencesExt, FiniteSetsExt, TLC

CONSTANT W                  \* ids per clock unit: id = ts * W + k

Z    == 0                    \* the zero (system) context
ALL  == -1                   \* "all contexts" read scope
NOID == -2                   \* no last-id
NOLIM == -1                  \* no limit
XC   == "xs.context"
NulTopics == {"tNUL0", "tNUL1", "tNUL2"}   \* abstract topics containing a 0x00 byte

TsOf(id) == id \div W

Forever == [k |-> "forever", n |-> 0]
Eph     == [k |-> "eph", n |-> 0]
TimeT(n) == [k |-> "time", n |-> n]
HeadT(n) == [k |-> "head", n |-> n]

Expired(id, f, now) == f.ttl.k = "time" /\ TsOf(id) + f.ttl.n <= now

SortAsc(S) == SetToSortSeq(S, <)
Take(s, n) == IF n = NOLIM \/ Len(s) <= n THEN s ELSE SubSeq(s, 1, n)
IdsOf(R) == [j \in 1..Len(R) |-> R[j].id]
FrameOf(r) == [topic |-> r.topic, ctx |-> r.ctx, ttl |-> r.ttl, meta |-> r.meta, hash |-> r.hash]
WithId(i, f) == [id |-> i, topic |-> f.topic, ctx |-> f.ctx, ttl |-> f.ttl, meta |-> f.meta, hash |-> f.hash]

RemoveKey(S, id) == [i \in (DOMAIN S) \ {id} |-> S[i]]
Put(S, id, f) == [i \in (DOMAIN S) \cup {id} |-> IF i = id THEN f ELSE S[i]]

-----------------------------------------------------------------------------
(* what may still be stored *)
Present(g) == (DOMAIN g.acc) \ (g.removed \cup g.gone)
InScope(f, ctx) == ctx = ALL \/ f.ctx = ctx

TopicIds(g, c, t) == {i \in Present(g) : g.acc[i].ctx = c /\ g.acc[i].topic = t}
NewestK(S, n) == IF Cardinality(S) <= n THEN S
                 ELSE {i \in S : Cardinality({j \in S : j > i}) < n}
HK(hk, c, t) == IF <<c, t>> \in DOMAIN hk THEN hk[<<c, t>>] ELSE {}
AddHK(hk, c, t, n) == [p \in (DOMAIN hk) \cup {<<c, t>>} |->
                         IF p = <<c, t>> THEN HK(hk, c, t) \cup {n} ELSE hk[p]]

(* C08: ids that are, right now, outside the K newest of their (ctx, topic) for a K on record *)
EvictableNow(g) ==
  {i \in Present(g) :
     \E n \in HK(g.headKs, g.acc[i].ctx, g.acc[i].topic) :
        i \notin NewestK(TopicIds(g, g.acc[i].ctx, g.acc[i].topic), n)}

(* a frame may vanish un-asked only if expired or evictable *)
MayBeCollected(g, i) == Expired(i, g.acc[i], g.clock) \/ i \in g.evictable

(* usable contexts (C07): derived from frames alone *)
IsReg(g, c) == c \in Present(g) /\ g.acc[c].topic = XC /\ g.acc[c].ctx = Z
MayBeUsable(g, c)  == c = Z \/ IsReg(g, c)
MustBeUsable(g, c) == c = Z \/ (IsReg(g, c) /\ ~MayBeCollected(g, c))

-----------------------------------------------------------------------------
(* C01 C06 C08 C09: a non-following read *)
Cands(g, ctx, last) ==
  {i \in Present(g) : InScope(g.acc[i], ctx) /\ i > last /\ ~Expired(i, g.acc[i], g.clock)}

(* candidates the result walked past without returning them *)
Skipped(g, ctx, last, lim, ids) ==
  LET P == Cands(g, ctx, last)
      S == ToSet(ids)
  IN IF lim # NOLIM /\ Len(ids) >= lim
     THEN (IF Len(ids) = 0 THEN {} ELSE {p \in P \ S : p < ids[Len(ids)]})
     ELSE P \ S

(* expired frames a read certainly walked past (they are owed to the collector) *)
MetBy(g, ctx, last, lim, ids) ==
  LET E == {i \in Present(g) : InScope(g.acc[i], ctx) /\ i > last /\ Expired(i, g.acc[i], g.clock)}
  IN IF lim # NOLIM /\ Len(ids) >= lim
     THEN (IF Len(ids) = 0 THEN {} ELSE {i \in E : i < ids[Len(ids)]})
     ELSE E

ReadVerdict(g, ctx, last, lim, R) ==
  LET ids == IdsOf(R)
      S == ToSet(ids)
      known == S \cap DOMAIN g.acc
  IN  (IF \E a, b \in 1..Len(ids) : a < b /\ ids[a] >= ids[b] THEN {"C01"} ELSE {})
      \cup (IF lim # NOLIM /\ Len(ids) > lim THEN {"C01"} ELSE {})
      \cup (IF \E i \in S : i <= last THEN {"C01"} ELSE {})
      \cup (IF \E i \in S \ DOMAIN g.acc : i \notin g.eph THEN {"C01"} ELSE {})
      \cup (IF S \cap g.eph # {} THEN {"C09"} ELSE {})
      \cup (IF known \cap g.removed # {} THEN {"C01"} ELSE {})
      \cup (IF known \cap g.gone # {} THEN {"C01", "C09"} ELSE {})
      \cup (IF \E j \in 1..Len(R) : R[j].id \in DOMAIN g.acc /\ FrameOf(R[j]) # g.acc[R[j].id]
            THEN {"C01", "C12"} ELSE {})
      \cup (IF \E i \in known : ~InScope(g.acc[i], ctx) THEN {"C06", "C01"} ELSE {})
      \cup (IF \E i \in known : Expired(i, g.acc[i], g.clock) THEN {"C09"} ELSE {})
      \cup (IF \E p \in Skipped(g, ctx, last, lim, ids) : p \notin g.evictable
            THEN {"C01", "C08"} ELSE {})

(* C01 C08 C09: lookup by id; r is <<>> or <<frame>> *)
GetVerdict(g, id, r) ==
  IF r = <<>>
  THEN IF id \in Present(g) /\ ~MayBeCollected(g, id) THEN {"C01", "C08"} ELSE {}
  ELSE (IF id \in g.eph THEN {"C09"} ELSE {})
       \cup (IF id \notin DOMAIN g.acc /\ id \notin g.eph THEN {"C01"} ELSE {})
       \cup (IF id \in DOMAIN g.acc /\ id \in g.removed THEN {"C01"} ELSE {})
       \cup (IF id \in DOMAIN g.acc /\ id \in g.gone THEN {"C01", "C09"} ELSE {})
       \cup (IF id \in DOMAIN g.acc /\ (r[1].id # id \/ FrameOf(r[1]) # g.acc[id]) THEN {"C01", "C12"} ELSE {})

(* C05 C06 C08: head(topic, ctx); r is <<>> or <<frame>> *)
HeadVerdict(g, t, c, r) ==
  LET H == TopicIds(g, c, t)
      top == IF r = <<>> THEN NOID ELSE r[1].id
      newer == {j \in H : j > top}
  IN  (IF r # <<>> /\ top \notin H
       THEN (IF top \in DOMAIN g.acc /\ g.acc[top].ctx # c THEN {"C06", "C05"} ELSE {"C05"})
       ELSE {})
      \cup (IF r # <<>> /\ top \in H /\ FrameOf(r[1]) # g.acc[top] THEN {"C05", "C01"} ELSE {})
      \cup (IF \E j \in newer : ~MayBeCollected(g, j) THEN {"C05", "C08"} ELSE {})

(* C07 (and C05 for NUL, C01 for ids): result of an append *)
ShouldAccept(g, c, t) ==
  /\ t \notin NulTopics
  /\ IF t = XC THEN c = Z ELSE MustBeUsable(g, c)
MayAccept(g, c, t) ==
  /\ t \notin NulTopics
  /\ IF t = XC THEN c = Z ELSE MayBeUsable(g, c)

AppendVerdict(g, c, t, ttl, meta, hash, ok, id, f) ==
  IF ~ok
  THEN IF ShouldAccept(g, c, t) THEN {"C07"} ELSE {}
  ELSE (IF t \in NulTopics THEN {"C05"} ELSE {})
       \cup (IF t # XC /\ ~MayBeUsable(g, c) THEN {"C07"} ELSE {})
       \cup (IF t = XC /\ c # Z THEN {"C07"} ELSE {})
       \* (C02: an append that completes after another one got the larger id - the stream grows at its end)
       \cup (IF id <= g.lastApp THEN {"C01", "C02"} ELSE {})
       \cup (IF TsOf(id) # g.clock THEN {"C01"} ELSE {})
       \cup (IF id \in DOMAIN g.acc THEN {"C01"} ELSE {})
       \cup (IF f # [topic |-> t, ctx |-> c, ttl |-> IF t = XC THEN Forever ELSE ttl,
                     meta |-> meta, hash |-> hash]
             THEN (IF t = XC /\ f.ttl # Forever THEN {"C07"} ELSE {"C01", "C12"})
                  \* (C10: the hash is that of the content given, and there is none without content)
                  \cup (IF f.hash # hash THEN {"C10"} ELSE {}) ELSE {})

(* C20 (C05 for NUL): an import is stored as is, or rejected whole when it cannot be stored consistently: *)
(* NUL in the topic, or a different frame already present under the id (ids are unique)                 *)
ImportConflict(g, id, f) == id \in Present(g) /\ g.acc[id] # f
ImportVerdict(g, id, f, ok) ==
  LET nul == f.topic \in NulTopics IN
  IF ok THEN (IF nul THEN {"C05", "C20"} ELSE {})
             \cup (IF ImportConflict(g, id, f) /\ ~MayBeCollected(g, id) THEN {"C20", "C05"} ELSE {})
  ELSE IF nul \/ ImportConflict(g, id, f) THEN {} ELSE {"C20"}

(* C05 C04: the three partitions in lock-step at a quiescent point;                *)
(* d = [stream: seq of ids, idxT: seq of <<ctx,topic,id>>, idxC: seq of <<ctx,id>>, *)
(*      contexts: seq of ids]                                                       *)
DumpVerdict(g, d) ==
  LET S == ToSet(d.stream)
      T == ToSet(d.idxT)
      C == ToSet(d.idxC)
  IN  (IF \E i \in S : i \notin DOMAIN g.acc \/ i \in g.removed \/ i \in g.gone
       THEN {"C05", "C01"} ELSE {})
      \cup (IF S \cap g.eph # {} THEN {"C09"} ELSE {})
      \cup (IF \E i \in Present(g) \ S : ~MayBeCollected(g, i) THEN {"C08"} ELSE {})
      \cup (IF {e[3] : e \in T} # S \/ {e[2] : e \in C} # S
               \/ Cardinality(T) # Cardinality(S) \/ Cardinality(C) # Cardinality(S)
            THEN {"C05"} ELSE {})
      \cup (IF \E e \in T : e[3] \in S \cap DOMAIN g.acc /\ (g.acc[e[3]].ctx # e[1] \/ g.acc[e[3]].topic # e[2])
            THEN {"C05"} ELSE {})
      \cup (IF \E e \in C : e[2] \in S \cap DOMAIN g.acc /\ g.acc[e[2]].ctx # e[1] THEN {"C05", "C06"} ELSE {})
      \cup (IF ToSet(d.contexts) # {Z} \cup {i \in S \cap DOMAIN g.acc : g.acc[i].topic = XC /\ g.acc[i].ctx = Z}
            THEN {"C07"} ELSE {})

(* C09 at a drained collector: met = expired frames walked past by earlier reads,       *)
(* owed = (ctx, topic) pairs with a head check enqueued; S = set of stored ids (dump);  *)
(* imp = imported ids (import triggers no collection, C20, so an imported newest frame   *)
(* makes no promise)                                                                     *)
DrainVerdict(g, met, owed, S, imp) ==
  (IF met \cap S # {} THEN {"C09"} ELSE {})
  \cup (IF \E p \in owed :
            LET H == {i \in S \cap DOMAIN g.acc : g.acc[i].ctx = p[1] /\ g.acc[i].topic = p[2]}
            IN H # {} /\ Max(H) \notin imp /\ g.acc[Max(H)].ttl.k = "head" /\ Cardinality(H) > g.acc[Max(H)].ttl.n
        THEN {"C09"} ELSE {})

(* C09: eviction takes the oldest first: no older appended frame survives a newer evicted one *)
(* (imp = ids that were imported; imports may legitimately arrive below an evicted id)       *)
EvictionOrderVerdict(g, S, imp) ==
  IF \E i \in Present(g) \ S : i \in g.evictable /\ ~Expired(i, g.acc[i], g.clock) /\
        \E j \in (S \cap DOMAIN g.acc) \ imp :
            j < i /\ g.acc[j].ctx = g.acc[i].ctx /\ g.acc[j].topic = g.acc[i].topic
  THEN {"C09"} ELSE {}
=============================================================================

--------------------------- MODULE XsRoutes ---------------------------
(* C13, the dispatch table of the HTTP front end (src/api.rs: match_route, handle and the handlers' *)
(* own refusals) transcribed as a function from a request - method, path shape, query shape, Accept *)
(* header, body shape - to what the client gets and what happens to the store.                      *)
(*                                                                                                  *)
(* Mode "check": TLC evaluates the design statements (ASSUMEs below: totality, a refusal changes    *)
(* nothing, only POST and DELETE have effects, ids and topics share one path segment without        *)
(* ambiguity, arms are tried in the documented order) over the whole request alphabet and emits one *)
(* vector per request (7 methods x 16 paths x 9 queries x 2 Accept x 4 bodies, less the shapes that *)
(* never end).  Mode "trace": the harness (xsv routes-run) has sent every vector as raw HTTP/1.1    *)
(* to the real xs::api::serve with a fresh frame X in the store each time and recorded status,      *)
(* what changed in the raw partitions, and whether the Store API finds the thing the path names;    *)
(* TLC compares each record with Outcome.                                                           *)
EXTENDS Naturals, Sequences, FiniteSets, TLC, Json, IOUtils

CONSTANT Mode

Methods == {"GET", "POST", "DELETE", "PUT", "PATCH", "HEAD", "OPTIONS"}

(* path shapes; X is a frame appended just before the request (topic t, system context, with content), *)
(* C a registered context                                                                              *)
Paths == {"root",        \* /
          "version",     \* /version
          "head_t",      \* /head/t
          "head_absent", \* /head/<topic nobody used>
          "head_empty",  \* /head/
          "cas",         \* /cas
          "cas_slash",   \* /cas/
          "cas_h",       \* /cas/<hash of X's content>
          "cas_absent",  \* /cas/<well-formed hash of nothing stored>
          "cas_bad",     \* /cas/nothash
          "import",      \* /import
          "id",          \* /<X.id>
          "id_absent",   \* /<well-formed id of no frame>
          "word",        \* /someword
          "deep",        \* /a/b
          "dslash_id"}   \* //<X.id>

Queries == {"none",
            "ctx_ok",     \* context=<C>
            "ctx_bad",    \* context=zzz
            "ttl_ok",     \* ttl=time:60000000
            "ttl_bad",    \* ttl=head:0
            "cid_ok",     \* context-id=<C>
            "cid_bad",    \* context-id=zzz
            "follow_bad", \* follow=maybe
            "limit1"}     \* limit=1

Accepts == {"none", "sse"}
Bodies == {"empty", "bytes", "frame", "notjson"}   \* "frame": a well-formed frame with a fresh id, as JSON

Req == [m : Methods, p : Paths, q : Queries, acc : Accepts, body : Bodies]

(* requests whose response is a stream that never ends by itself are left to the follow probes *)
Endless(r) == r.m = "GET" /\ r.p \in {"head_t", "head_absent", "head_empty"} /\ r.q = "follow_bad"

-----------------------------------------------------------------------------
(* the path segment after the leading slashes names an id *)
IsIdPath(p) == p \in {"id", "id_absent", "dslash_id"}
IdExists(p) == p \in {"id", "dslash_id"}

(* what POST /<path> appends to: the path without its leading slashes, whatever it looks like *)
TopicOf(p) ==
  CASE p = "root" -> "" [] p = "version" -> "version" [] p = "head_t" -> "head/t" [] p = "head_absent" -> "head/nosuch"
    [] p = "head_empty" -> "head/" [] p = "cas_slash" -> "cas/" [] p = "cas_h" -> "cas/H" [] p = "cas_absent" -> "cas/A"
    [] p = "cas_bad" -> "cas/nothash" [] p = "id" -> "X" [] p = "id_absent" -> "U" [] p = "word" -> "someword"
    [] p = "deep" -> "a/b" [] p = "dslash_id" -> "X" [] OTHER -> "?"

No(st) == [st |-> st, eff |-> "none", topic |-> "", inC |-> FALSE]

(* `exists`: the Store API finds what the path names (head of the topic in the context asked for; the id) *)
Outcome(r, exists) ==
  CASE r.m = "GET" /\ r.p = "version" -> No(200)
    [] r.m = "GET" /\ r.p = "root" -> IF r.q \in {"cid_bad", "follow_bad"} THEN No(400) ELSE No(200)
    [] r.m = "GET" /\ r.p \in {"head_t", "head_absent", "head_empty"} ->
         IF r.q = "ctx_bad" THEN No(400) ELSE IF exists THEN No(200) ELSE No(404)
    [] r.m = "GET" /\ r.p = "cas_h" -> No(200)
    [] r.m = "GET" /\ r.p = "cas_absent" -> No(404)
    [] r.m = "GET" /\ r.p \in {"cas_bad", "cas_slash"} -> No(400)
    \* everything else under GET is a lookup by id
    [] r.m = "GET" /\ IsIdPath(r.p) -> IF exists THEN No(200) ELSE No(404)
    [] r.m = "GET" -> No(400)
    [] r.m = "POST" /\ r.p = "cas" -> IF r.body = "empty" THEN No(400) ELSE [No(200) EXCEPT !.eff = "cas"]
    [] r.m = "POST" /\ r.p = "import" -> IF r.body = "frame" THEN [No(200) EXCEPT !.eff = "import"] ELSE No(400)
    [] r.m = "POST" ->
         IF r.q \in {"ctx_bad", "ttl_bad"} THEN No(400)
         ELSE [st |-> 200, eff |-> "append", topic |-> TopicOf(r.p), inC |-> r.q = "ctx_ok"]
    [] r.m = "DELETE" /\ IsIdPath(r.p) -> [No(204) EXCEPT !.eff = IF exists THEN "remove" ELSE "none"]
    [] r.m = "DELETE" -> No(400)
    [] OTHER -> No(404)

-----------------------------------------------------------------------------
(* design statements, for every request and either answer of the Store API *)
ASSUME Total == \A r \in Req, e \in BOOLEAN : Outcome(r, e).st \in {200, 204, 400, 404}
ASSUME RefusalChangesNothing == \A r \in Req, e \in BOOLEAN : Outcome(r, e).st >= 400 => Outcome(r, e).eff = "none"
ASSUME OnlyPostAndDeleteWrite == \A r \in Req, e \in BOOLEAN : Outcome(r, e).eff # "none" => r.m \in {"POST", "DELETE"}
ASSUME ReadsIgnoreBody == \A r \in Req, e \in BOOLEAN, b \in Bodies : r.m = "GET" => Outcome([r EXCEPT !.body = b], e) = Outcome(r, e)
(* an id in the path means the frame with that id for GET and DELETE, however many slashes precede it *)
ASSUME IdPathsAgree == \A r \in Req, e \in BOOLEAN : r.m \in {"GET", "DELETE"} /\ r.p = "dslash_id"
                          => Outcome(r, e) = Outcome([r EXCEPT !.p = "id"], e)
(* the fixed arms win over the generic ones: /version, /cas and /import are never ids or topics for their own method *)
ASSUME FixedArmsFirst == /\ \A r \in Req : r.m = "GET" /\ r.p = "version" => Outcome(r, FALSE).st = 200
                         /\ \A r \in Req : r.m = "POST" /\ r.p \in {"cas", "import"} => Outcome(r, TRUE).eff # "append"
(* a removal of what is not there succeeds and does nothing *)
ASSUME DeleteIdempotent == \A r \in Req : r.m = "DELETE" /\ IsIdPath(r.p) => Outcome(r, FALSE) = No(204)

-----------------------------------------------------------------------------
VARIABLE l
Rec == IF Mode = "trace" THEN ndJsonDeserialize(IOEnv.TRACE) ELSE <<>>

EmitVectors ==
  \A r \in Req : Endless(r) \/ PrintT("VEC " \o ToJson(r))

Init == l = 1 /\ (Mode = "check" => EmitVectors)

(* what the property fixes is the class of the status (a result, or a refusal for a client error), not the number: *)
(* Outcome names the numbers the pinned code answers with, the comparison is by class                              *)
Class(n) == IF n >= 200 /\ n <= 299 THEN 2 ELSE IF n >= 400 /\ n <= 499 THEN 4 ELSE n

Judge ==
  LET o == Rec[l]
      r == [m |-> o.m, p |-> o.p, q |-> o.q, acc |-> o.acc, body |-> o.body]
      want == Outcome(r, o.exists)
      ok == /\ Class(o.status) = Class(want.st)
            /\ o.eff = want.eff
            /\ (want.eff = "append" => o.topic = want.topic /\ o.inC = want.inC)
            \* the rendering asked for (only GET / has two)
            /\ (r.m = "GET" /\ r.p = "root" /\ want.st = 200 => o.sse = (r.acc = "sse"))
            \* the server answers the next request
            /\ o.next = 200
  IN IF ok THEN TRUE ELSE PrintT("VIOL " \o ToJson([props |-> {"C13"}, b |-> 0, l |-> l,
                                     e |-> o.m \o " " \o o.p \o " " \o o.q \o " " \o o.acc \o " " \o o.body,
                                     want |-> want, got |-> [st |-> o.status, eff |-> o.eff, topic |-> o.topic, inC |-> o.inC]]))

Next == /\ Mode = "trace" /\ l <= Len(Rec)
        /\ Judge
        /\ l' = l + 1

Spec == Init /\ [][Next]_l

Done == l > Len(Rec)
Final == (Mode = "trace" /\ Done) => PrintT("VERDICT " \o ToJson([events |-> Len(Rec)]))
=============================================================================

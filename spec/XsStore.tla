------------------------------- MODULE XsStore -------------------------------
(***************************************************************************)
(* Code-layer model of src/store/mod.rs for sequential clients and an      *)
(* asynchronous collector: the three fjall partitions, the in-memory       *)
(* context registry, the FIFO GC queue, the clock.  One action per public  *)
(* operation / per GC task; reads are modelled by the mechanism the code   *)
(* uses (range over the primary or the context index, primary lookup that  *)
(* skips dangling entries, expiry filter with a queued Remove, then take). *)
(* The ghosts (acc, removed, gone, ...) are what a user was told; XsProps  *)
(* judges the mechanism against them.                                      *)
(***************************************************************************)
EXTENDS XsProps

CONSTANTS MaxOps,       \* client operations per behaviour
          MaxClock,
          Topics, TTLs,
          MaxImports,
          Gen,          \* TRUE: record the operation list in hist (behaviour generation)
          Dev           \* "none", or a named deviation of the mechanism that the invariants must reject (vacuity guard,
                        \* thorough tier): "reg-before-refusal" (an import registers its context before the refusal
                        \* check, seeded changes C07-c / C20-d), "import-overwrites" (a different frame under a stored id
                        \* replaces it, defect 13 before its fix)

BOGUS == 3               \* an id nobody ever stored (ts 0, k 3)
M0 == "none"

VARIABLES stream, idxT, idxC, contexts, gcq, clock, k, nops,
          acc, removed, gone, evictable, headKs, eph, lastApp, imported,
          met, owed, bad, hist, fin

vars == <<stream, idxT, idxC, contexts, gcq, clock, k, nops,
          acc, removed, gone, evictable, headKs, eph, lastApp, imported, met, owed, bad, hist, fin>>

mcview == <<stream, idxT, idxC, contexts, gcq, clock, k, nops,
            acc, removed, gone, evictable, headKs, eph, lastApp, imported, met, owed, bad, fin>>

Ids == DOMAIN stream

G == [acc |-> acc, removed |-> removed, gone |-> gone, clock |-> clock, headKs |-> headKs,
      evictable |-> evictable, eph |-> eph, lastApp |-> lastApp]
G1 == [acc |-> acc', removed |-> removed', gone |-> gone', clock |-> clock', headKs |-> headKs',
       evictable |-> evictable, eph |-> eph', lastApp |-> lastApp']

Log(op) == hist' = IF Gen THEN Append(hist, op) ELSE hist

-----------------------------------------------------------------------------
(* mechanisms, as coded *)

\* candidate ids in scan order, before the expiry filter (iter_frames)
ScanIds(ctx, last) ==
  IF ctx = ALL
  THEN SortAsc({i \in Ids : i > last})
  ELSE SortAsc({e[2] : e \in {e \in idxC : e[1] = ctx /\ e[2] > last /\ e[2] \in Ids}})

RECURSIVE ReadWalk(_, _, _, _)
\* filter(expired => queue Remove).take(lim): <<result ids, expired ids met>>
ReadWalk(cands, lim, res, m) ==
  IF cands = <<>> \/ (lim # NOLIM /\ Len(res) >= lim) THEN <<res, m>>
  ELSE LET i == Head(cands) IN
       IF Expired(i, stream[i], clock)
       THEN ReadWalk(Tail(cands), lim, res, Append(m, i))
       ELSE ReadWalk(Tail(cands), lim, Append(res, i), m)

ImplRead(ctx, last, lim) == ReadWalk(ScanIds(ctx, last), lim, <<>>, <<>>)
ImplReadFrames(ctx, last, lim) ==
  LET r == ImplRead(ctx, last, lim)[1] IN [j \in 1..Len(r) |-> WithId(r[j], stream[r[j]])]

ImplGet(id) == IF id \in Ids THEN <<WithId(id, stream[id])>> ELSE <<>>

\* reverse prefix scan of idx_topic, find_map over the primary
ImplHead(t, c) ==
  LET es == {e \in idxT : e[1] = c /\ e[2] = t /\ e[3] \in Ids} IN
  IF es = {} THEN <<>> ELSE ImplGet(Max({e[3] : e \in es}))

ImplDump == [stream |-> SortAsc(Ids), idxT |-> SetToSeq(idxT), idxC |-> SetToSeq(idxC),
             contexts |-> SetToSeq(contexts)]

\* Store::remove
DoRemove(id) ==
  IF id \in Ids
  THEN LET f == stream[id] IN
       /\ stream' = RemoveKey(stream, id)
       /\ idxT' = idxT \ {<<f.ctx, f.topic, id>>}
       /\ idxC' = idxC \ {<<f.ctx, id>>}
       /\ contexts' = IF f.topic = XC THEN contexts \ {id} ELSE contexts
  ELSE UNCHANGED <<stream, idxT, idxC, contexts>>

CtxChoices == {Z, BOGUS} \cup Ids

-----------------------------------------------------------------------------
Init ==
  /\ stream = <<>> /\ idxT = {} /\ idxC = {} /\ contexts = {Z} /\ gcq = <<>>
  /\ clock = 1 /\ k = 0 /\ nops = 0
  /\ acc = <<>> /\ removed = {} /\ gone = {} /\ evictable = {} /\ eph = {} /\ lastApp = 0
  /\ imported = {}
  /\ headKs = [p \in {} |-> {}]
  /\ met = {} /\ owed = {} /\ bad = {} /\ hist = <<>> /\ fin = FALSE

Client == ~fin /\ nops < MaxOps /\ nops' = nops + 1 /\ UNCHANGED fin

\* Store::append: id, registry branch, NUL check, insert (one batch), GC enqueue
OpAppend(c, t, ttl0) ==
  /\ Client /\ k < W \div 2
  /\ UNCHANGED <<clock, removed, gone, imported, met>>
  /\ LET id == clock * W + (W \div 2) + k
         isx == t = XC
         ok == (IF isx THEN c = Z ELSE c \in contexts) /\ t \notin NulTopics
         ttl == IF isx THEN Forever ELSE ttl0
         f == [topic |-> t, ctx |-> c, ttl |-> ttl, meta |-> M0, hash |-> M0]
     IN /\ k' = k + 1
        /\ Log([op |-> "append", ctx |-> c, topic |-> t, ttl |-> ttl0])
        /\ bad' = bad \cup AppendVerdict(G, c, t, ttl0, M0, M0, ok, id, f)
        /\ IF ~ok
           THEN UNCHANGED <<stream, idxT, idxC, contexts, gcq, acc, headKs, lastApp, eph, owed, evictable>>
           ELSE /\ lastApp' = id
                /\ IF ttl = Eph
                   THEN /\ UNCHANGED <<stream, idxT, idxC, gcq, acc, headKs, contexts, owed, evictable>>
                        /\ eph' = eph \cup {id}
                   ELSE /\ stream' = Put(stream, id, f)
                        /\ idxT' = idxT \cup {<<c, t, id>>}
                        /\ idxC' = idxC \cup {<<c, id>>}
                        /\ contexts' = IF isx THEN contexts \cup {id} ELSE contexts
                        /\ acc' = Put(acc, id, f)
                        /\ UNCHANGED eph
                        /\ IF ttl.k = "head"
                           THEN /\ gcq' = IF Dev = "head-check-skipped" THEN gcq
                                            ELSE Append(gcq, [op |-> "check", ctx |-> c, topic |-> t, keep |-> ttl.n])
                                /\ headKs' = AddHK(headKs, c, t, ttl.n)
                                /\ owed' = owed \cup {<<c, t>>}
                           ELSE UNCHANGED <<gcq, headKs, owed>>
                        /\ evictable' = evictable \cup EvictableNow(G1)

OpRemove(id) ==
  /\ Client
  /\ Log([op |-> "remove", id |-> id])
  /\ DoRemove(id)
  /\ removed' = IF id \in DOMAIN acc THEN removed \cup {id} ELSE removed
  /\ UNCHANGED <<gcq, clock, k, acc, gone, headKs, evictable, eph, lastApp, imported, met, owed, bad>>

Tick ==
  /\ ~fin /\ clock < MaxClock /\ clock' = clock + 1 /\ k' = 0
  /\ Log([op |-> "tick"])
  /\ UNCHANGED <<stream, idxT, idxC, contexts, gcq, nops, acc, removed, gone, evictable, headKs, eph,
                 lastApp, imported, met, owed, bad, fin>>

\* one task of the collector
GcStep ==
  /\ ~fin /\ gcq # <<>>
  /\ Log([op |-> "gc"])
  /\ LET task == Head(gcq) IN
     /\ gcq' = Tail(gcq)
     /\ IF task.op = "remove"
        THEN \* the id may have been removed and imported again as another frame: only what is still an
             \* expired time-TTL frame is collected
             IF task.id \in Ids /\ Expired(task.id, stream[task.id], clock)
             THEN DoRemove(task.id) /\ gone' = gone \cup {task.id}
             ELSE UNCHANGED <<stream, idxT, idxC, contexts, gone>>
        ELSE LET es == {e \in idxT : e[1] = task.ctx /\ e[2] = task.topic}
                 ids == {e[3] : e \in es}
                 victims == (ids \ NewestK(ids, task.keep)) \cap Ids
             IN /\ stream' = [i \in Ids \ victims |-> stream[i]]
                /\ idxT' = idxT \ {<<stream[i].ctx, stream[i].topic, i>> : i \in victims}
                /\ idxC' = idxC \ {<<stream[i].ctx, i>> : i \in victims}
                /\ contexts' = contexts \ {i \in victims : stream[i].topic = XC}
                /\ gone' = gone \cup victims
  /\ UNCHANGED <<clock, k, nops, acc, removed, evictable, headKs, eph, lastApp, imported, met, owed, bad, fin>>

\* read_sync / read(follow = off): expired frames met are queued for removal
OpRead(path, ctx, last, lim) ==
  /\ Client
  /\ Log([op |-> "read", path |-> path, ctx |-> ctx, last |-> last, lim |-> lim])
  /\ LET r == ImplRead(ctx, last, lim) IN
     /\ gcq' = gcq \o [j \in 1..Len(r[2]) |-> [op |-> "remove", id |-> r[2][j]]]
     /\ met' = met \cup MetBy(G, ctx, last, lim, r[1])
  /\ UNCHANGED <<stream, idxT, idxC, contexts, clock, k, acc, removed, gone, evictable, headKs, eph,
                 lastApp, imported, owed, bad>>

\* wait_for_gc returned
OpDrain ==
  /\ Client /\ gcq = <<>>
  /\ Log([op |-> "drain"])
  /\ bad' = bad \cup DrainVerdict(G, met, owed, Ids, imported) \cup EvictionOrderVerdict(G, Ids, imported)
  /\ met' = {} /\ owed' = {}
  /\ UNCHANGED <<stream, idxT, idxC, contexts, gcq, clock, k, acc, removed, gone, evictable, headKs, eph,
                 lastApp, imported>>

\* process stop + Store::new on the same directory: the queue is lost (known deviation, DESIGN 6 #11),
\* the registry is rebuilt from a read of the zero context
Reopen ==
  /\ Client
  /\ Log([op |-> "reopen"])
  /\ LET r == ImplRead(Z, NOID, NOLIM) IN
     /\ contexts' = {Z} \cup {r[1][j] : j \in {j \in 1..Len(r[1]) : stream[r[1][j]].topic = XC}}
     /\ gcq' = [j \in 1..Len(r[2]) |-> [op |-> "remove", id |-> r[2][j]]]
     /\ met' = ToSet(r[2])
  /\ owed' = {}
  /\ UNCHANGED <<stream, idxT, idxC, clock, k, acc, removed, gone, evictable, headKs, eph, lastApp, imported, bad>>

\* POST /import -> insert_frame: stored as is, no GC trigger, registered if it is a context frame
OpImport(id, c, t, ttl) ==
  /\ Client
  /\ Cardinality(imported) < MaxImports \/ id \in Ids
  /\ (t = XC => ttl = Forever)
  /\ Log([op |-> "import", id |-> id, ctx |-> c, topic |-> t, ttl |-> ttl])
  /\ UNCHANGED <<gcq, clock, k, headKs, eph, lastApp, met>>
  /\ LET f == [topic |-> t, ctx |-> c, ttl |-> ttl, meta |-> M0, hash |-> M0]
         conflict == id \in Ids /\ stream[id] # f
         rejected == t \in NulTopics \/ (conflict /\ Dev # "import-overwrites")
     IN
     /\ bad' = bad \cup ImportVerdict(G, id, f, ~rejected)
     /\ IF rejected
        THEN \* NUL topic, or a different frame already lives under this id: rejected whole, nothing written
             /\ contexts' = IF Dev = "reg-before-refusal" /\ t = XC /\ c = Z THEN contexts \cup {id} ELSE contexts
             /\ UNCHANGED <<stream, idxT, idxC, acc, imported, owed, evictable, removed, gone>>
        ELSE /\ stream' = Put(stream, id, f)
             /\ idxT' = idxT \cup {<<c, t, id>>}
             /\ idxC' = idxC \cup {<<c, id>>}
             /\ acc' = Put(acc, id, f)
             /\ removed' = removed \ {id} /\ gone' = gone \ {id}
             /\ contexts' = IF t = XC /\ c = Z THEN contexts \cup {id} ELSE contexts
             /\ imported' = imported \cup {id}
             /\ owed' = owed \ {<<c, t>>}
             /\ evictable' = evictable \cup EvictableNow(G1)

Finish ==
  /\ ~fin /\ nops = MaxOps /\ fin' = TRUE
  /\ UNCHANGED <<stream, idxT, idxC, contexts, gcq, clock, k, nops, acc, removed, gone, evictable, headKs,
                 eph, lastApp, imported, met, owed, bad, hist>>

ImportIds == {ts * W + j : ts \in 1..MaxClock, j \in {1}} \cup Ids
ReadCtxs == {ALL, Z} \cup (contexts \ {Z})
Lasts == {NOID} \cup DOMAIN acc

Next ==
  \/ \E c \in CtxChoices, t \in Topics, ttl \in TTLs : OpAppend(c, t, ttl)
  \/ \E id \in Ids : OpRemove(id)
  \/ Tick
  \/ GcStep
  \/ \E p \in {"sync", "stream"}, ctx \in ReadCtxs, last \in Lasts, lim \in {NOLIM, 1, 2} :
        /\ (Gen \/ (p = "sync" /\ ImplRead(ctx, last, lim)[2] # <<>>))   \* MC: only reads with a side effect
        /\ OpRead(p, ctx, last, lim)
  \/ OpDrain
  \/ Reopen
  \/ \E id \in ImportIds, c \in {Z} \cup Ids, t \in Topics, ttl \in TTLs \ {Eph} : OpImport(id, c, t, ttl)
  \/ (Gen /\ Finish)

Spec == Init /\ [][Next]_vars

-----------------------------------------------------------------------------
(* properties: the mechanism is accepted by the user-level statements, for every parameter *)
AllCtx == {ALL, Z, BOGUS} \cup Ids \cup {acc[i].ctx : i \in DOMAIN acc}

INV_Read ==
  \A ctx \in AllCtx, last \in Lasts \cup {BOGUS}, lim \in {NOLIM, 0, 1, 2} :
     ReadVerdict(G, ctx, last, lim, ImplReadFrames(ctx, last, lim)) = {}

(* the result is not merely accepted but exact: the collector is the only source of slack *)
INV_ReadExact ==
  \A ctx \in AllCtx, last \in Lasts, lim \in {NOLIM, 1, 2} :
     ImplRead(ctx, last, lim)[1] = Take(SortAsc(Cands(G, ctx, last)), lim)

INV_Get == \A id \in (DOMAIN acc) \cup eph \cup {BOGUS} : GetVerdict(G, id, ImplGet(id)) = {}

INV_Head == \A c \in AllCtx \ {ALL}, t \in Topics : HeadVerdict(G, t, c, ImplHead(t, c)) = {}

INV_Dump == DumpVerdict(G, ImplDump) = {}

INV_Bad == bad = {}

INV_EphNeverStored == eph \cap Ids = {}

C08_NoEarlyLoss ==
  [][\A i \in Ids \ DOMAIN stream' : i \in removed' \/ Expired(i, stream[i], clock) \/ i \in evictable]_vars

C01_AppendIdsIncrease == [][lastApp' >= lastApp]_vars

(* C09 at rest, in every state (OpDrain judges the same statement, but only where a client action is still left):   *)
(* whenever the collector's queue is empty, everything the reads met expired is physically gone and every           *)
(* (context, topic) that owes a head:K trim holds at most K frames, the newest ones                                 *)
INV_Drained == gcq = <<>> => (DrainVerdict(G, met, owed, Ids, imported) \cup EvictionOrderVerdict(G, Ids, imported)) = {}

(* liveness (MC_store_live_*.cfg, no VIEW): the collector thread is the only actor that runs by itself; under weak    *)
(* fairness of its step the queue drains whatever the clients do, so the enforced state of INV_Drained is reached   *)
FairSpec == Spec /\ WF_vars(GcStep)
L_GcDrains == <>[](gcq = <<>>)
L_C09_Enforced == <>[]((DrainVerdict(G, met, owed, Ids, imported) \cup EvictionOrderVerdict(G, Ids, imported)) = {})

(* behaviour generation: print one JSON line per finished behaviour *)
=============================================================================

----------------------------- MODULE XsStoreInd -----------------------------
(***************************************************************************)
(* Sequence-free core of XsStore for Apalache: the three partitions and    *)
(* the context registry under insert (append / import), remove (explicit   *)
(* or by the collector) and reopen, over a finite id universe.             *)
(* IndInv (the partitions describe the same frames; the registry is a      *)
(* function of the stored frames) is shown *inductive*:                    *)
(*     Init => IndInv            (--length=0)                              *)
(*     IndInv /\ Next => IndInv' (--init=IndInit --length=1)               *)
(* which lifts PartitionsAgree / C07_Registry from the bounded histories   *)
(* TLC explores to histories of any length (for this id universe).         *)
(***************************************************************************)
EXTENDS Integers, FiniteSets

CONSTANTS
  \* @type: Set(Int);
  Ids,
  \* @type: Set(Str);
  Topics

VARIABLES
  \* @type: Set(Int);
  stored,
  \* @type: Int -> Int;
  fctx,
  \* @type: Int -> Str;
  ftopic,
  \* @type: Set(<<Int, Str, Int>>);
  idxT,
  \* @type: Set(<<Int, Int>>);
  idxC,
  \* @type: Set(Int);
  contexts

Z == 0
XC == "xs.context"

ConstInit == Ids = {1, 2, 3, 4} /\ Topics = {"tA", "tAB", "xs.context"}

Init ==
  /\ stored = {}
  /\ fctx = [i \in Ids |-> Z]
  /\ ftopic = [i \in Ids |-> "tA"]
  /\ idxT = {} /\ idxC = {} /\ contexts = {Z}

\* Store::insert_frame after the fixes: one batch over the three partitions; an id that is already
\* stored is accepted only for the identical frame; a registration frame is registered
OpInsert(i, c, t) ==
  /\ (i \in stored => (fctx[i] = c /\ ftopic[i] = t))
  /\ stored' = stored \union {i}
  /\ fctx' = [fctx EXCEPT ![i] = c]
  /\ ftopic' = [ftopic EXCEPT ![i] = t]
  /\ idxT' = idxT \union {<<c, t, i>>}
  /\ idxC' = idxC \union {<<c, i>>}
  /\ contexts' = IF t = XC /\ c = Z THEN contexts \union {i} ELSE contexts

\* Store::append: only into a usable context; xs.context only in the zero context
OpAppend(i, c, t) ==
  /\ i \notin stored
  /\ IF t = XC THEN c = Z ELSE c \in contexts
  /\ OpInsert(i, c, t)

\* Store::remove (explicit, or a collector task): three tombstones in one batch
OpRemove(i) ==
  /\ i \in stored
  /\ stored' = stored \ {i}
  /\ idxT' = idxT \ {<<fctx[i], ftopic[i], i>>}
  /\ idxC' = idxC \ {<<fctx[i], i>>}
  /\ contexts' = IF ftopic[i] = XC THEN contexts \ {i} ELSE contexts
  /\ UNCHANGED <<fctx, ftopic>>

\* Store::new on the same directory: the registry is rebuilt from the zero context
Reopen ==
  /\ contexts' = {Z} \union {e[2] : e \in {e \in idxC : e[1] = Z /\ e[2] \in stored /\ ftopic[e[2]] = XC}}
  /\ UNCHANGED <<stored, fctx, ftopic, idxT, idxC>>

Next ==
  \/ \E i \in Ids, c \in Ids \union {Z}, t \in Topics : OpAppend(i, c, t) \/ OpInsert(i, c, t)
  \/ \E i \in Ids : OpRemove(i)
  \/ Reopen

TypeOK ==
  /\ stored \subseteq Ids
  /\ fctx \in [Ids -> Ids \union {Z}]
  /\ ftopic \in [Ids -> Topics]
  /\ idxT \subseteq (Ids \union {Z}) \X Topics \X Ids
  /\ idxC \subseteq (Ids \union {Z}) \X Ids
  /\ contexts \subseteq Ids \union {Z}

PartitionsAgree ==
  /\ idxT = {<<fctx[i], ftopic[i], i>> : i \in stored}
  /\ idxC = {<<fctx[i], i>> : i \in stored}

C07_Registry == contexts = {Z} \union {i \in stored : ftopic[i] = XC /\ fctx[i] = Z}

IndInv == TypeOK /\ PartitionsAgree /\ C07_Registry
\* an arbitrary state satisfying the invariant (assignment form for Apalache)
IndInit ==
  /\ stored \in SUBSET Ids
  /\ fctx \in [Ids -> Ids \union {Z}]
  /\ ftopic \in [Ids -> Topics]
  /\ idxT \in SUBSET ((Ids \union {Z}) \X Topics \X Ids)
  /\ idxC \in SUBSET ((Ids \union {Z}) \X Ids)
  /\ contexts \in SUBSET (Ids \union {Z})
  /\ PartitionsAgree /\ C07_Registry
=============================================================================

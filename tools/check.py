#!/usr/bin/env python3
"""check.py <property> --quick|--thorough

Decides one property: model-checks the code-layer specification with TLC, replays
TLC-generated and random behaviours on the real code (rebuilt from /repo's working tree with
the hooks on), validates every recorded trace against the observer specification with TLC,
and reports.  exit 0 = held on everything explored; exit 1 + VIOLATION line; exit 2 = tool error.
"""
import fcntl
import importlib
import json
import os
import sys
import time

sys.path.insert(0, os.path.dirname(os.path.abspath(__file__)))
from common import (CACHE, ToolError, build_harness, load_known, log, repo_state, sha, verif_state,
                    write_evidence)

PROP_GROUPS = {
    "C01": ["store"], "C02": ["conc"], "C03": ["conc"], "C04": ["dur"], "C05": ["store"], "C06": ["store", "conc", "http"],
    "C07": ["store", "dur"], "C08": ["store"], "C09": ["store", "conc"], "C10": ["store", "http", "conc", "dur", "proc"],
    "C11": ["conc", "store", "http"], "C12": ["codec", "store", "http", "proc"], "C13": ["http"], "C20": ["store", "http"],
    "C14": ["proc"], "C15": ["proc"], "C16": ["proc"], "C17": ["proc"], "C18": ["proc"], "C19": ["proc"],
}
PROP_GROUPS["C06"] = PROP_GROUPS["C06"] + ["proc"]
for _p in ("C06", "C10", "C12", "C13", "C20"):
    PROP_GROUPS[_p] = PROP_GROUPS[_p] + ["cli"]

ASSUME = {
    "codec": ["numbers are canonical decimal strings in the model (TLC integers are 32 bit); JSON values of metas are sampled by class in the store/http groups, not enumerated"],
    "proc": ["TLC's verdict on XsHandlers / XsCommands / XsGenerators holds for the constants of the MC_proc_*.cfg files "
             "(1-2 names x 2 contexts, <= 4 client actions, <= 1 restart); the code is modelled as it is, its known deviations "
             "are named flags and the invariants they break are checked on the repaired variants",
             "the stream is the trace: the observer (TraceProc) judges the dumped stream only, from id order and stamps; which "
             "thread ran when is never consulted",
             "a frame counts as absent only after the runner found something owed and waited its long timeout (20-30 s); "
             "a late frame is a missed detection, never an alarm",
             "scripts come from a fixed catalogue of deterministic nu scripts (tools/groups/proc_catalogue.py); "
             "restarts are SIGKILL or exit of the serving process, mostly at quiescent points"],
    "http": ["requests are raw HTTP/1.1 over the unix socket, one connection per request (Connection: close)",
             "topics sent in the request line are URL-safe ASCII; NUL topics reach the server only through POST /import",
             "a rejected append may leave an orphan CAS object; 'changes nothing' means frames, indexes and registry"],
    "cli": ["the server side is xs::api::serve inside the harness worker (virtual clock, gated collector), the client side is the "
            "unmodified `xs` binary built from /repo's working tree",
            "`xs cat --sse` is not used (the flag has no effect: two Accept headers, the server answers the first); a call that "
            "reports success and prints nothing (unflushed stdout, about 1 in 5000 on a loaded machine) ends the behaviour - both "
            "are observations outside the listed properties (DESIGN 0.5)",
            "topics are URL-safe ASCII without NUL (an argument cannot carry one); malformed requests stay with the raw HTTP group"],
    "conc": ["TLC's verdict on XsConcurrent holds for the constants of the MC_conc_*.cfg files (2 writers, <= 3 frames each, B, M <= 3)",
             "schedules are explored at the granularity of the xs_verif gates; fjall and tokio internals are not gated",
             "the observer uses only the order of events that are really ordered (returned-before-called, delivery order)"],
    "dur": ["TLC's verdict on XsDurable holds for the constants of the MC_dur_*.cfg files; memtable flush, journal rotation "
            "and compaction are not in the model, they are sampled on the implementation by bulk runs",
            "crash points are the store-mutating system calls (plus torn tails of journal writes) after the first "
            "acknowledged operation; kill images are real SIGKILLs, power-loss images are reconstructed from an strace "
            "log under an ordered-metadata file-system model (tools/durimg.py)",
            "durability of CAS content against power loss is not claimed (the property excludes it)"],
    "store": ["TLC's verdict on XsStore holds for the constants of the MC_store_*.cfg files",
              "virtual clock and gated collector (cfg xs_verif) stand in for wall-clock time and thread timing",
              "topics, metas and contents are sampled from concretisation families; the model treats them as uninterpreted"],
}


def group_result(group, tier, seed):
    key = sha(group, tier, seed, repo_state(), verif_state())
    os.makedirs(CACHE, exist_ok=True)
    cf = os.path.join(CACHE, f"{group}-{key}.json")
    with open(os.path.join(CACHE, f"{group}.lock"), "w") as lk:
        fcntl.flock(lk, fcntl.LOCK_EX)
        if os.path.exists(cf) and not os.environ.get("VERIF_NOCACHE"):
            log(f"{group}: using result cached for this tree state")
            return json.load(open(cf))
        build_harness()
        mod = importlib.import_module(f"groups.{group}")
        res = mod.run(tier, seed)
        json.dump(res, open(cf, "w"))
        return res


def main():
    if len(sys.argv) < 2:
        print(__doc__)
        return 2
    prop = sys.argv[1]
    tier = "thorough" if "--thorough" in sys.argv else os.environ.get("VERIF_TIER", "quick")
    if tier not in ("quick", "thorough"):
        tier = "quick"
    seed = int(os.environ.get("VERIF_SEED", "0") or 0)
    t0 = time.time()
    if prop not in PROP_GROUPS:
        print(f"no check for {prop}")
        return 2
    try:
        results = [group_result(g, tier, seed) for g in PROP_GROUPS[prop]]
    except ToolError as e:
        print(f"TOOL-ERROR property={prop}: {e}", file=sys.stderr)
        return 2
    except Exception as e:  # a failure of the machinery is never a verdict
        import traceback
        traceback.print_exc()
        print(f"TOOL-ERROR property={prop}: {type(e).__name__}: {e}", file=sys.stderr)
        return 2
    allk = load_known()
    known = [k for k in allk if k.get("property") == prop and k.get("status") == "known"]
    # a pattern the observers recognise by a key is exempt only while known-findings.jsonl lists that key as
    # `known` for this property; once it is listed as `fixed` (or not at all) its return is a violation again
    listed_known = {k.get("key") for k in known}
    owners = {}
    for k in allk:
        if k.get("key"):
            owners.setdefault(k["key"], set()).add(k["property"])
    viols = []
    exercised = set()
    for r in results:
        viols += r.get("violations", {}).get(prop, [])
        exercised.update(r.get("known", []))
        for key in r.get("known", []):
            mine = prop in owners.get(key, {key.split("-")[0]})
            if mine and key not in listed_known:
                rps = r.get("known_replays", {}).get(key) or [os.path.join(os.path.dirname(CACHE), "known-findings.jsonl")]
                viols.append({"b": -1, "event": 0, "kind": f"returned:{key}", "replay": rps[0]})
    for k in known:
        print(f"KNOWN-FINDING: property={prop} {k['what']}"
              + (" [exercised in this run]" if k.get("key") in exercised else ""))
    states = sum(m["distinct"] for r in results for m in r.get("mc", []))
    trans = sum(m["generated"] for r in results for m in r.get("mc", []))
    nbeh = sum(r.get("behaviours", 0) for r in results)
    samples = [s for r in results for s in r.get("samples", [])][:4]
    cov = {
        "states": states, "transitions": trans, "traces_validated_against_impl": nbeh,
        "samples": samples, "exhaustive": False,
        "events_validated": sum(r.get("events", 0) for r in results),
        "trace_states": sum(r.get("trace_states", 0) for r in results),
        "groups": [{k: v for k, v in r.items() if k not in ("samples", "violations")} for r in results],
        "known_findings_exercised": sorted(exercised),
        "rule": "TLC exhausts the code-layer configs listed under groups[].mc; behaviours are TLC -simulate runs of "
                "the same model plus seeded random ones, replayed on the real store with probes after every step; "
                "every recorded trace is validated by TLC against the observer spec",
    }
    # what the self-test (seeded changes from independent sub-agents, /verif/seeded) recorded for this property
    seeded = []
    sd = os.path.join(os.path.dirname(CACHE), "seeded")
    if os.path.isdir(sd):
        for d in sorted(os.listdir(sd)):
            mp = os.path.join(sd, d, "meta.json")
            if os.path.exists(mp):
                m = json.load(open(mp))
                if m.get("property") == prop or prop in (m.get("caught_by") or []):
                    seeded.append({"seed": d, "breaks": m.get("property"), "caught_by": m.get("caught_by")})
    cov["seeded_changes"] = seeded
    assumptions = [a for g in PROP_GROUPS[prop] for a in ASSUME.get(g, [])]
    write_evidence(prop, tier, seed, cov, time.time() - t0, len(viols), assumptions)
    if viols:
        for v in viols[:5]:
            print(f"VIOLATION property={prop} replay={v['replay']}")
        return 1
    print(f"OK property={prop} tier={tier} states={states} behaviours={nbeh}")
    return 0


if __name__ == "__main__":
    sys.exit(main())

"""Shared plumbing for the check driver: building, running TLC, caching, evidence."""
import fcntl
import hashlib
import json
import os
import re
import shutil
import subprocess
import sys
import time

VERIF = os.path.dirname(os.path.dirname(os.path.abspath(__file__)))
REPO = os.environ.get("XS_REPO", "/repo")
SPEC = os.path.join(VERIF, "spec")
HARNESS = os.path.join(VERIF, "harness")
XSV = os.path.join(HARNESS, "target", "debug", "xsv")
CACHE = os.path.join(VERIF, ".cache")
REPLAYS = os.path.join(VERIF, "replays")
EVIDENCE = os.path.join(VERIF, "evidence")
SCRATCH_BASE = "/dev/shm" if os.path.isdir("/dev/shm") else "/var/tmp"


class ToolError(Exception):
    pass


def log(*a):
    print("[check]", *a, file=sys.stderr, flush=True)


def sh(cmd, cwd=None, env=None, timeout=None, check=True):
    e = dict(os.environ)
    if env:
        e.update(env)
    try:
        p = subprocess.run(cmd, cwd=cwd, env=e, shell=isinstance(cmd, str), stdout=subprocess.PIPE,
                           stderr=subprocess.STDOUT, timeout=timeout, text=True, errors="replace")
    except subprocess.TimeoutExpired as ex:
        raise ToolError(f"timeout after {timeout}s: {cmd}\n{(ex.stdout or '')[-2000:]}")
    if check and p.returncode != 0:
        raise ToolError(f"command failed ({p.returncode}): {cmd}\n{p.stdout[-4000:]}")
    return p


def sha(*parts):
    h = hashlib.sha256()
    for p in parts:
        h.update(p if isinstance(p, bytes) else str(p).encode())
        h.update(b"\0")
    return h.hexdigest()[:20]


def tree_hash(root, exts, skip=("target", "states", ".cache", "replays", "evidence", "__pycache__")):
    h = hashlib.sha256()
    for d, dirs, files in os.walk(root):
        dirs[:] = sorted(x for x in dirs if x not in skip and not x.startswith(".git"))
        for f in sorted(files):
            if f.endswith(exts):
                p = os.path.join(d, f)
                h.update(os.path.relpath(p, root).encode())
                with open(p, "rb") as fh:
                    h.update(fh.read())
    return h.hexdigest()[:20]


def repo_state():
    """identity of /repo's working tree: HEAD + diff + untracked sources"""
    head = sh("git rev-parse HEAD", cwd=REPO).stdout.strip()
    diff = sh("git diff HEAD", cwd=REPO).stdout
    untracked = sh("git ls-files --others --exclude-standard", cwd=REPO).stdout.split()
    h = hashlib.sha256((head + diff).encode())
    for u in sorted(untracked):
        p = os.path.join(REPO, u)
        if os.path.isfile(p) and os.path.getsize(p) < 5_000_000:
            h.update(u.encode())
            with open(p, "rb") as fh:
                h.update(fh.read())
    # sources ignored by the repository's own .gitignore (src/store is) are covered by git diff
    return h.hexdigest()[:20]


def verif_state():
    return sha(tree_hash(SPEC, (".tla", ".cfg", ".ndjson")),
               tree_hash(os.path.join(HARNESS, "src"), (".rs",)),
               tree_hash(os.path.join(VERIF, "tools"), (".py",)),
               open(os.path.join(VERIF, "known-findings.jsonl"), "rb").read()
               if os.path.exists(os.path.join(VERIF, "known-findings.jsonl")) else b"")


_built = False
XS_BIN = os.path.join(HARNESS, "target-xs", "debug", "xs")
_built_xs = False


def build_xs_bin():
    """the real `xs` binary (src/main.rs), built from /repo's working tree into a target directory of /verif"""
    global _built_xs
    if _built_xs:
        return XS_BIN
    t0 = time.time()
    os.makedirs(CACHE, exist_ok=True)
    with open(os.path.join(CACHE, "build-xs.lock"), "w") as lk:
        fcntl.flock(lk, fcntl.LOCK_EX)
        p = sh(f"cargo build --offline --manifest-path {REPO}/Cargo.toml --bin xs --target-dir "
               + os.path.join(HARNESS, "target-xs") + " 2>&1", cwd=VERIF, timeout=3000, check=False,
               env={"CARGO_PROFILE_DEV_DEBUG": "0", "CARGO_NET_OFFLINE": "true"})
        if p.returncode != 0 or not os.path.exists(XS_BIN):
            raise ToolError("xs binary build failed (does /repo still compile?)\n" + p.stdout[-6000:])
    _built_xs = True
    log(f"xs binary built in {time.time() - t0:.1f}s")
    return XS_BIN



def build_harness():
    global _built
    if _built:
        return
    t0 = time.time()
    os.makedirs(CACHE, exist_ok=True)
    with open(os.path.join(CACHE, "build.lock"), "w") as lk:
        fcntl.flock(lk, fcntl.LOCK_EX)
        p = sh("cargo build 2>&1", cwd=HARNESS, timeout=3000, check=False)
        if p.returncode != 0:
            raise ToolError("harness build failed (does /repo still compile with --cfg xs_verif?)\n" + p.stdout[-6000:])
    _built = True
    log(f"harness built in {time.time() - t0:.1f}s")


_swept = False


def _sweep_stale_scratch():
    """scratch directories of check processes that no longer exist (killed runs) are removed: they live in memory"""
    global _swept
    if _swept:
        return
    _swept = True
    try:
        for name in os.listdir(SCRATCH_BASE):
            m = re.match(r"^(?:xs-verif|xsv)\.(\d+)(?:\.|$)", name)
            if not m:
                continue
            pid = int(m.group(1))
            p = os.path.join(SCRATCH_BASE, name)
            try:
                os.kill(pid, 0)
                continue            # still running
            except ProcessLookupError:
                pass
            except PermissionError:
                continue
            if time.time() - os.path.getmtime(p) > 600:
                shutil.rmtree(p, ignore_errors=True)
    except OSError:
        pass


def scratch(tag):
    _sweep_stale_scratch()
    d = os.path.join(SCRATCH_BASE, f"xs-verif.{os.getpid()}.{tag}")
    shutil.rmtree(d, ignore_errors=True)
    os.makedirs(d)
    return d


TLC_STATES = re.compile(r"(\d+) states generated, (\d+) distinct states found")


def tlc(module, cfg, workers=8, extra="", env=None, timeout=1800, metadir=None, xmx="6g", cwd=SPEC):
    """run TLC; returns (stdout, generated, distinct)"""
    md = metadir or scratch("tlc-" + sha(module, cfg, extra, time.time()))
    e = {"JAVA_TOOL_OPTIONS": f"-Xss1g -Xmx{xmx}"}
    if env:
        e.update(env)
    cmd = (f"tlc -workers {workers} -metadir {md} -cleanup -noGenerateSpecTE {extra} "
           f"-config {cfg} {module}")
    p = sh(cmd, cwd=cwd, env=e, timeout=timeout, check=False)
    shutil.rmtree(md, ignore_errors=True)
    out = p.stdout
    m = TLC_STATES.findall(out)
    gen, dist = (int(m[-1][0]), int(m[-1][1])) if m else (0, 0)
    return out, gen, dist, p.returncode


def model_check(module, cfg, workers=12, timeout=1800, extra=""):
    """exhaustive TLC run of a code-layer configuration; any error is a tool error (the model
    is wrong about the design, nothing is said about /repo)"""
    # the result depends on the model modules and this config only (not on the Trace* observers)
    h = hashlib.sha256()
    for f in sorted(os.listdir(SPEC)):
        if (f.endswith(".tla") and not f.startswith("Trace")) or f == os.path.basename(cfg):
            h.update(f.encode())
            h.update(open(os.path.join(SPEC, f), "rb").read())
    key = sha("mc", module, cfg, extra, h.hexdigest())
    cf = os.path.join(CACHE, f"mc-{key}.json")
    if os.path.exists(cf):
        return json.load(open(cf))
    t0 = time.time()
    out, gen, dist, rc = tlc(module, cfg, workers=workers, timeout=timeout, extra=extra)
    ok = "Model checking completed. No error has been found." in out
    res = {"module": module, "cfg": cfg, "generated": gen, "distinct": dist, "ok": ok,
           "wall_s": round(time.time() - t0, 1)}
    if not ok:
        raise ToolError(f"TLC reports an error in {module}/{cfg} (model problem, not a verdict on /repo):\n" + out[-5000:])
    os.makedirs(CACHE, exist_ok=True)
    json.dump(res, open(cf, "w"))
    log(f"model check {cfg}: {dist} distinct / {gen} generated in {res['wall_s']}s")
    return res


def load_known():
    p = os.path.join(VERIF, "known-findings.jsonl")
    out = []
    if os.path.exists(p):
        for l in open(p):
            l = l.strip()
            if l and not l.startswith("#"):
                out.append(json.loads(l))
    return out


def write_evidence(prop, tier, seed, coverage, wall_s, violations, assumptions):
    os.makedirs(EVIDENCE, exist_ok=True)
    ev = {"property_id": prop, "tier": tier, "seed": seed, "level": "model_checking",
          "coverage": coverage, "assumptions": assumptions, "wall_s": round(wall_s, 1),
          "violations": violations}
    json.dump(ev, open(os.path.join(EVIDENCE, f"{prop}.json"), "w"), indent=1)

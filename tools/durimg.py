"""Power-loss images from one recorded run (DESIGN 4.4, simplified ALICE model).

A run of `xsv dur-child` is recorded with

    strace -f -y -xx -s <big> -e trace=<file-mutating calls>

`parse()` turns the log into a list of events on the store directory (plus the ACK markers
written to the side file), `Replayer` applies them one by one to an in-memory file system with
two views:

  volatile  what the kernel has accepted (what a process kill leaves behind),
  durable   what is guaranteed to be on the medium:
              * file content and size as of the last fsync/fdatasync of that file (inode),
              * the name space (creates, renames, unlinks, mkdirs) as of the last fsync of
                anything in the store directory - the "ordered metadata journal" behaviour of
                ext4/xfs/btrfs; strict POSIX (an entry is durable only after an fsync of its
                directory) is NOT what is modelled, fjall itself relies on the weaker contract
                when it creates a partition (rename of `levels`, fsync of the file only).

`variants(k)` yields the images for "power is lost after event k":

  pl-drop     durable name space, every file at its durable content
  pl-keepns   volatile name space, every file at its durable content (never-synced files empty)
  pl-os       durable name space, journal files keep every un-synced write, other files durable
  pl-torn-h   as pl-os, but the write made by event k is cut at half its length
  pl-torn-1   as pl-os, but the write made by event k loses its last byte
  pl-strict-drop / pl-strict-keepns
              as pl-drop / pl-keepns under a stricter file-system contract, see below; ADVISORY

Renaming a freshly written, not yet fsynced file over an existing one (lsm-tree's
`rewrite_atomic` does that with the `levels` manifest: write temp, rename, *then* fsync) is
treated as flushing the new file's data first - what ext4 does by default (auto_da_alloc,
data=ordered).  The pl-strict-* variants drop that assumption (XFS, ext4 data=writeback or
noauto_da_alloc may persist the rename before the data): their verdicts are reported as
advisories, never as violations, because no power can be cut in this sandbox to demonstrate them.

Memory-mapped CAS files are invisible to strace (cacache write_hash): a CAS content file is
taken from the final directory of the recorded run from the event that renames it into place on
(exactly what a kill would leave); durability of CAS content against power loss is not claimed
by C04, and the verdict never uses it for power-loss images.
"""
import hashlib
import os
import re

MUTATING = ("openat,open,creat,write,pwrite64,writev,pwritev,ftruncate,fallocate,rename,renameat,"
            "renameat2,link,linkat,unlink,unlinkat,rmdir,mkdir,mkdirat,lseek,fsync,fdatasync,"
            "sync_file_range")


class ImgError(Exception):
    """the reconstruction machinery is unsure: always a tool error, never a verdict"""


_HEX = re.compile(rb"\\x([0-9a-f]{2})")
_LINE = re.compile(r"^(\d+)\s+(\w+)\((.*)\)\s+=\s+(-?\d+|\?)(.*)$", re.S)
_FD = re.compile(r"^(-?\d+)<((?:\\x[0-9a-f]{2})*)>")
_UNF = re.compile(r"^(\d+)\s+(.*) <unfinished \.\.\.>$", re.S)
_RES = re.compile(r"^(\d+)\s+<\.\.\. (\w+) resumed>(.*)$", re.S)


def unhex(s):
    return bytes(int(x, 16) for x in _HEX.findall(s.encode() if isinstance(s, str) else s))


def _lines(path):
    pending = {}
    with open(path, errors="replace") as fh:
        for raw in fh:
            raw = raw.rstrip("\n")
            m = _UNF.match(raw)
            if m:
                pending[m.group(1)] = m.group(2)
                continue
            m = _RES.match(raw)
            if m:
                if m.group(1) not in pending:
                    raise ImgError("strace log: resumed without unfinished: " + raw[:200])
                raw = f"{m.group(1)}  {pending.pop(m.group(1))}{m.group(3)}"
            m = _LINE.match(raw)
            if not m:
                if "+++ exited" in raw or "+++ killed" in raw or "--- SIG" in raw:
                    continue
                raise ImgError("strace log: unparsable line: " + raw[:200])
            yield m.groups()
    # calls still in progress when the process ended: their effect may or may not have happened
    for pid, text in pending.items():
        m = re.match(r"^(\w+)\((.*)$", text, re.S)
        if m:
            yield pid, m.group(1), m.group(2), "pending", ""


def split_args(a):
    out, cur, depth, inq, i = [], [], 0, False, 0
    while i < len(a):
        c = a[i]
        if inq:
            cur.append(c)
            if c == "\\":
                cur.append(a[i + 1])
                i += 1
            elif c == '"':
                inq = False
        elif c == '"':
            inq = True
            cur.append(c)
        elif c in "<{[(":
            depth += 1
            cur.append(c)
        elif c in ">}])":
            depth -= 1
            cur.append(c)
        elif c == "," and depth == 0:
            out.append("".join(cur).strip())
            cur = []
        else:
            cur.append(c)
        i += 1
    if "".join(cur).strip():
        out.append("".join(cur).strip())
    return out


def _fdpath(arg):
    m = _FD.match(arg)
    if not m:
        return None, None
    p = unhex(m.group(2)).decode(errors="surrogateescape")
    if p.endswith(" (deleted)"):
        p = p[:-10]
    return int(m.group(1)), p


def _path(arg, dirarg=None):
    """a quoted \\x-encoded path argument, made absolute with the dirfd argument if needed"""
    p = unhex(arg).decode(errors="surrogateescape")
    if not p.startswith("/") and dirarg is not None:
        _, d = _fdpath(dirarg)
        if d is None:
            raise ImgError(f"relative path {p!r} with dirfd {dirarg!r}")
        p = d.rstrip("/") + "/" + p
    return p


def parse(logpath, root, ackpath):
    """-> (list of events (dicts) about paths under root and ACK markers, in log order;
           writes that were still in progress when the process ended)"""
    root = root.rstrip("/")
    evs = []
    off = {}       # fd -> [offset, append?]

    def inside(p):
        return p is not None and (p == root or p.startswith(root + "/"))

    def rel(p):
        return p[len(root) + 1:]

    pend = []
    for pid, name, args, ret, rest in _lines(logpath):
        if ret == "?":
            continue
        a = split_args(args)
        if ret == "pending":
            # only a write can leave bytes behind that the log does not account for
            if name == "write":
                fd, p = _fdpath(a[0])
                if inside(p) and len(a) >= 3 and a[2].strip().isdigit():
                    st = off.setdefault(fd, [0, False])
                    pend.append({"e": "write", "p": rel(p), "off": None if st[1] else st[0],
                                 "data": unhex(a[1])[:int(a[2])]})
            elif name in ("pwrite64", "writev", "pwritev", "ftruncate", "rename", "renameat", "renameat2",
                          "unlink", "unlinkat") and root in unhex(args).decode(errors="replace"):
                raise ImgError(f"{name} on the store still in progress at the end of the strace log")
            continue
        r = int(ret)
        if r < 0:
            continue
        if name in ("openat", "open", "creat"):
            if name == "openat":
                p, flags = _path(a[1], a[0] if not a[0].startswith("AT_FDCWD") else None), a[2]
            elif name == "open":
                p, flags = _path(a[0]), a[1]
            else:
                p, flags = _path(a[0]), "O_CREAT|O_WRONLY|O_TRUNC"
            off[r] = [0, "O_APPEND" in flags]
            if inside(p) and ("O_CREAT" in flags or "O_TRUNC" in flags):
                evs.append({"e": "open", "p": rel(p), "creat": "O_CREAT" in flags, "trunc": "O_TRUNC" in flags,
                            "tmpfile": "O_TMPFILE" in flags})
            continue
        if name in ("write", "pwrite64", "writev", "pwritev"):
            fd, p = _fdpath(a[0])
            if p == ackpath:
                evs.append({"e": "ack", "line": unhex(a[1]).decode(errors="replace").strip()})
                continue
            if not inside(p):
                continue
            if name in ("writev", "pwritev"):
                data = b"".join(unhex(x) for x in re.findall(r'iov_base="((?:\\x[0-9a-f]{2})*)"', a[1]))[:r]
            else:
                data = unhex(a[1])[:r]
            if len(data) != r:
                raise ImgError(f"strace string limit too small: {name} of {r} bytes, {len(data)} logged")
            st = off.setdefault(fd, [0, False])
            if name == "pwrite64":
                o = int(a[3])
            elif name == "pwritev":
                o = int(a[3])
            else:
                o = None if st[1] else st[0]     # None: append at end of file
                st[0] += r
            evs.append({"e": "write", "p": rel(p), "off": o, "data": data})
            continue
        if name == "lseek":
            fd, p = _fdpath(a[0])
            if fd in off:
                off[fd][0] = r
            continue
        if name == "ftruncate":
            fd, p = _fdpath(a[0])
            if inside(p):
                evs.append({"e": "truncate", "p": rel(p), "size": int(a[1])})
            continue
        if name == "fallocate":
            fd, p = _fdpath(a[0])
            if inside(p):
                evs.append({"e": "fallocate", "p": rel(p), "mode": a[1], "off": int(a[2]), "len": int(a[3])})
            continue
        if name in ("mkdir", "mkdirat"):
            p = _path(a[0]) if name == "mkdir" else _path(a[1], a[0] if not a[0].startswith("AT_FDCWD") else None)
            if inside(p) and p != root:
                evs.append({"e": "mkdir", "p": rel(p)})
            elif p == root:
                evs.append({"e": "mkroot"})
            continue
        if name in ("rename", "renameat", "renameat2", "link", "linkat"):
            if name in ("rename", "link"):
                s, d = _path(a[0]), _path(a[1])
            else:
                s = _path(a[1], a[0] if not a[0].startswith("AT_FDCWD") else None)
                d = _path(a[3], a[2] if not a[2].startswith("AT_FDCWD") else None)
            if inside(s) != inside(d):
                raise ImgError(f"{name} across the store boundary: {s} -> {d}")
            if inside(s):
                evs.append({"e": "rename" if name.startswith("rename") else "link", "p": rel(s), "q": rel(d)})
            continue
        if name in ("unlink", "unlinkat", "rmdir"):
            p = _path(a[0]) if name != "unlinkat" else _path(a[1], a[0] if not a[0].startswith("AT_FDCWD") else None)
            if inside(p):
                evs.append({"e": "unlink", "p": rel(p)})
            continue
        if name in ("fsync", "fdatasync", "sync_file_range"):
            fd, p = _fdpath(a[0])
            if inside(p):
                evs.append({"e": "fsync", "p": rel(p) if p != root else ""})
            continue
    return evs, pend


class Inode:
    __slots__ = ("data", "size", "ddata", "dsize", "sdata", "ssize", "unsynced", "ver", "dver", "wver", "ext")

    def __init__(self):
        self.data = bytearray()   # volatile content up to the highest written offset
        self.size = 0             # volatile logical size (>= len(data): the rest is a hole)
        self.ddata = b""          # durable content / size (last fsync of this inode)
        self.dsize = 0
        self.sdata = b""          # durable content under the strict contract (explicit fsync only)
        self.ssize = 0
        self.unsynced = []        # (off, bytes, event index) written since the last fsync
        self.ver = 0              # number of fsyncs / changes of ddata / changes of data: identify
        self.dver = 0             # a content without hashing it (image descriptors)
        self.wver = 0
        self.ext = None           # content comes from the final directory (mmap-written CAS file)


def is_journal(p):
    return p.startswith("fjall/journals/")


class Replayer:
    def __init__(self, final_dir=None):
        self.final = final_dir
        self.ns = {}            # volatile name space: rel path -> Inode | "dir"
        self.dns = {}           # durable name space
        self.acks = []          # ACK lines seen so far
        self.k = 0              # events applied
        self.last = None        # the event applied last

    # -- applying events ------------------------------------------------------------------
    def _file(self, p):
        n = self.ns.get(p)
        if not isinstance(n, Inode):
            raise ImgError(f"event {self.k} on {p!r}: not a known regular file")
        return n

    def apply(self, ev):
        self.k += 1
        self.last = ev
        e = ev["e"]
        if e == "ack":
            self.acks.append(ev["line"])
        elif e == "mkroot":
            pass
        elif e == "mkdir":
            self.ns.setdefault(ev["p"], "dir")
        elif e == "open":
            if ev["tmpfile"]:
                raise ImgError("O_TMPFILE is not modelled")
            n = self.ns.get(ev["p"])
            if n is None:
                self.ns[ev["p"]] = Inode()
            elif isinstance(n, Inode) and ev["trunc"]:
                n.data = bytearray()
                n.size = 0
                n.wver += 1
                n.unsynced.append((0, None, self.k))
        elif e == "write":
            n = self._file(ev["p"])
            o = n.size if ev["off"] is None else ev["off"]
            d = ev["data"]
            if len(n.data) < o:
                n.data.extend(bytes(o - len(n.data)))
            n.data[o:o + len(d)] = d
            n.size = max(n.size, o + len(d))
            n.wver += 1
            n.unsynced.append((o, d, self.k))
        elif e == "truncate":
            n = self._file(ev["p"])
            if ev["size"] < len(n.data):
                del n.data[ev["size"]:]
            n.size = ev["size"]
            n.wver += 1
        elif e == "fallocate":
            n = self._file(ev["p"])
            if ev["mode"] not in ("0", "0x0"):
                raise ImgError("fallocate mode " + ev["mode"])
            n.size = max(n.size, ev["off"] + ev["len"])
            n.wver += 1
        elif e == "rename":
            n = self.ns.pop(ev["p"], None)
            if n is None:
                raise ImgError(f"rename of unknown {ev['p']!r}")
            if n == "dir":
                for q in [q for q in self.ns if q.startswith(ev["p"] + "/")]:
                    self.ns[ev["q"] + q[len(ev["p"]):]] = self.ns.pop(q)
            elif isinstance(self.ns.get(ev["q"]), Inode) and not ev["q"].startswith("cacache"):
                # replace-by-rename: the default contract flushes the new file's data first
                n.ddata, n.dsize = bytes(n.data), n.size
                n.dver += 1
            elif ev["q"].startswith("cacache/content-") and self.final is not None:
                # written through a shared mapping: the bytes are whatever the process stored
                # before renaming the file into place, i.e. what the final directory holds
                n.ext = os.path.join(self.final, ev["q"])
            self.ns[ev["q"]] = n
        elif e == "link":
            self.ns[ev["q"]] = self.ns[ev["p"]]
        elif e == "unlink":
            self.ns.pop(ev["p"], None)
        elif e == "fsync":
            n = self.ns.get(ev["p"]) if ev["p"] else "dir"
            if isinstance(n, Inode):
                n.ddata = n.sdata = bytes(n.data)
                n.dsize = n.ssize = n.size
                n.unsynced = []
                n.ver += 1
                n.dver += 1
            # ordered metadata journal: every earlier name-space operation is durable now
            self.dns = dict(self.ns)
        else:
            raise ImgError("unknown event " + e)

    # -- images ----------------------------------------------------------------------------
    def nacked(self):
        return sum(1 for l in self.acks if l.startswith("ACK "))

    def _content(self, n, mode, cut):
        """(bytes, size) of inode n: mode 'vol' | 'dur' | 'os' (durable + all un-synced writes)
        cut = (event index, keep) truncates the write made by that event to keep bytes"""
        if n.ext is not None:
            # content taken from the recorded directory (mmap-written CAS files); a variant of the
            # code under test may have deleted the file afterwards: then there is nothing to take
            try:
                with open(n.ext, "rb") as fh:
                    b = fh.read()
            except FileNotFoundError:
                b = b""
            return b, len(b)
        if mode == "vol":
            return bytes(n.data), n.size
        if mode == "strict":
            return n.sdata, n.ssize
        if mode == "dur" or not n.unsynced:
            return n.ddata, n.dsize
        b = bytearray(n.ddata)
        size = n.dsize
        for (o, d, k) in n.unsynced:
            if d is None:          # O_TRUNC since the last fsync
                b = bytearray()
                size = 0
                continue
            if cut is not None and k == cut[0]:
                d = d[:cut[1]]
            if len(b) < o:
                b.extend(bytes(o - len(b)))
            b[o:o + len(d)] = d
            size = max(size, o + len(d))
        return bytes(b), size

    def variants(self):
        """descriptors of the power-loss images for a crash right after the last applied event"""
        ev = self.last
        out = [("pl-drop", "dns", "dur", None), ("pl-keepns", "ns", "dur", None),
               ("pl-os", "dns", "os", None),
               ("pl-strict-drop", "dns", "strict", None), ("pl-strict-keepns", "ns", "strict", None)]
        if ev is not None and ev["e"] == "write" and is_journal(ev["p"]) and len(ev["data"]) > 1:
            out.append(("pl-torn-h", "dns", "os", (self.k, len(ev["data"]) // 2)))
            out.append(("pl-torn-1", "dns", "os", (self.k, len(ev["data"]) - 1)))
        return out

    def files(self, nsname, mode, cut):
        """-> {rel path: (bytes, size) | 'dir'} for one image"""
        ns = self.ns if nsname == "ns" else self.dns
        # the CAS subtree is always what a kill at this point leaves (not claimed for power loss)
        ns = {p: n for p, n in ns.items() if not p.startswith("cacache")}
        ns.update({p: n for p, n in self.ns.items() if p.startswith("cacache")})
        out = {}
        for p, n in ns.items():
            if n == "dir":
                out[p] = "dir"
            elif p.startswith("cacache/"):
                out[p] = self._content(n, "vol", None)
            else:
                m = mode if (mode != "os" or is_journal(p)) else "dur"
                out[p] = self._content(n, m, cut)
        return out

    def describe(self, nsname, mode, cut):
        """hashable identity of the image files(nsname, mode, cut) would build, without building it"""
        ns = self.ns if nsname == "ns" else self.dns
        d = []
        for p, n in ns.items():
            if p.startswith("cacache"):
                continue
            if n == "dir":
                d.append((p, "dir"))
                continue
            m = mode if (mode != "os" or is_journal(p)) else "dur"
            if m == "os" and not n.unsynced:
                m = "dur"
            if m == "dur":
                d.append((p, id(n), "d", n.dver))
            elif m == "strict":
                d.append((p, id(n), "s", n.ver))
            else:
                c = cut if cut is not None and any(k == cut[0] for (_, _, k) in n.unsynced) else None
                d.append((p, id(n), "o", n.dver, len(n.unsynced), c))
        # the CAS subtree is left out: it does not take part in the recovery of the store, and its
        # presence is not judged for power-loss images
        return tuple(sorted(d, key=lambda x: x[0]))

    @staticmethod
    def fingerprint(files):
        h = hashlib.sha256()
        for p in sorted(files):
            v = files[p]
            h.update(p.encode(errors="surrogateescape"))
            if v == "dir":
                h.update(b"/")
            else:
                h.update(hashlib.sha256(v[0]).digest())
                h.update(str(v[1]).encode())
        return h.hexdigest()

    @staticmethod
    def materialise(files, dest):
        os.makedirs(dest)
        for p in sorted(files):
            v = files[p]
            t = os.path.join(dest, p)
            if v == "dir":
                os.makedirs(t, exist_ok=True)
                continue
            os.makedirs(os.path.dirname(t), exist_ok=True)
            with open(t, "wb") as fh:
                fh.write(v[0])
                if v[1] > len(v[0]):
                    fh.truncate(v[1])


def selfcheck(rep, real_dir, subtree="fjall"):
    """the volatile view after the whole log must equal the real directory byte for byte"""
    want = {}
    base = os.path.join(real_dir, subtree)
    for d, dirs, fs in os.walk(base):
        for x in dirs:
            want[os.path.relpath(os.path.join(d, x), real_dir)] = "dir"
        for x in fs:
            want[os.path.relpath(os.path.join(d, x), real_dir)] = "file"
    want[subtree] = "dir"
    got = {p: ("dir" if n == "dir" else "file") for p, n in rep.ns.items()
           if p == subtree or p.startswith(subtree + "/")}
    if got != want:
        diff = sorted(set(got.items()) ^ set(want.items()))[:6]
        raise ImgError(f"replay of the strace log does not reproduce the directory tree: {diff}")
    for p, kind in want.items():
        if kind != "file":
            continue
        n = rep.ns[p]
        with open(os.path.join(real_dir, p), "rb") as fh:
            real = fh.read()
        mine = bytes(n.data) + bytes(n.size - len(n.data))
        if real != mine:
            raise ImgError(f"replay of the strace log does not reproduce {p}: {len(real)} vs {len(mine)} bytes")
    return len(want)

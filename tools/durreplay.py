#!/usr/bin/env python3
"""durreplay.py <replays/dur-bN.json>: run the operation list of a durability replay file again on
the current /repo (every crash point, kill and power-loss images) and print what is judged bad.
exit 0 = nothing, 1 = violations reproduced, 2 = tool error."""
import os
import sys

sys.path.insert(0, os.path.dirname(os.path.abspath(__file__)))
from common import ToolError, build_harness

if __name__ == "__main__":
    if len(sys.argv) != 2:
        print(__doc__)
        sys.exit(2)
    try:
        build_harness()
        import groups.dur as dur
        v = dur.replay(sys.argv[1])
    except ToolError as e:
        print(f"TOOL-ERROR: {e}", file=sys.stderr)
        sys.exit(2)
    sys.exit(1 if v else 0)

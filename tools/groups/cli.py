"""CLI group: the store behaviours executed by the real `xs` binary (src/main.rs: argument parsing, option building;
src/client: query / header encoding, request, connection, direct CAS access) against the API served on the store's
unix socket, one child process per operation; follow streams (`xs cat --follow`, `xs cat --pulse n --limit m`) as
child processes with their output piped. Judged by the same observer (TraceStore) as the store and http groups.
Decides the client side of C12 C13 C20 and the command-line parts of C06 C10."""
from groups import store

PROPS = ["C06", "C10", "C12", "C13", "C20"]


def run(tier, seed):
    return store.run(tier, seed, regress=True, cli=True)

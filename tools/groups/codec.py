"""Codec group (C12): spec/XsCodec.tla transcribes the TTL / read-option grammar; TLC checks the round-trip
statements over the whole token alphabet and emits one vector per enumerated input; the harness runs every
vector through the real parsers/renderers (parse_ttl, TTL::from_query, serde, to_query, ReadOptions) and TLC
validates the recorded results against the same operators."""
import json
import os
import shutil
import time

from common import (SPEC, XSV, ToolError, log, scratch, sh, tlc)

PROPS = ["C12"]


def run(tier, seed):
    t0 = time.time()
    d = scratch("codec")
    try:
        out, gen, dist, rc = tlc("XsCodec.tla", "MC_codec.cfg", workers=1, timeout=300)
        if "No error has been found" not in out:
            raise ToolError("XsCodec: TLC reports an error in the transcription (model problem):\n" + out[-3000:])
        vec = os.path.join(d, "vec.ndjson")
        nvec = 0
        with open(vec, "w") as f:
            for l in out.splitlines():
                if l.startswith('"VEC '):
                    f.write(json.loads(l)[4:] + "\n")
                    nvec += 1
        if nvec < 100:
            raise ToolError("XsCodec emitted too few vectors")
        resf = os.path.join(d, "res.ndjson")
        p = sh([XSV, "codec-run", "--in", vec, "--out", resf, "--seed", str(seed)], timeout=600)
        nres = json.loads(p.stdout.strip().splitlines()[-1])["results"]
        tout, tgen, tdist, _ = tlc("XsCodec.tla", "TraceCodec.cfg", workers=1, env={"TRACE": resf}, timeout=600)
        if "No error has been found" not in tout or '"VERDICT ' not in tout:
            raise ToolError("codec trace validation did not finish:\n" + tout[-3000:])
        viols = [json.loads(json.loads(l)[5:]) for l in tout.splitlines() if l.startswith('"VIOL ')]
        res = {"group": "codec", "tier": tier, "seed": seed,
               "mc": [{"module": "XsCodec.tla", "cfg": "MC_codec.cfg", "generated": max(gen, 1), "distinct": max(dist, 1),
                       "ok": True, "vectors": nvec}],
               "behaviours": nres, "events": nres, "trace_states": tdist, "known": [], "violations": {},
               "samples": [json.loads(l) for l in open(resf).readlines()[:3]]}
        if viols:
            os.makedirs(os.path.join(os.path.dirname(SPEC), "replays"), exist_ok=True)
            path = os.path.join(os.path.dirname(SPEC), "replays", "codec.json")
            lines = open(resf).readlines()
            json.dump({"group": "codec", "violations": viols,
                       "results": [json.loads(lines[v["l"] - 1]) for v in viols[:50]]}, open(path, "w"), indent=1)
            res["violations"]["C12"] = [{"b": 0, "event": v["l"], "kind": v["e"], "replay": path} for v in viols]
    finally:
        shutil.rmtree(d, ignore_errors=True)
    res["wall_s"] = round(time.time() - t0, 1)
    log(f"codec group: {res['mc'][0]['vectors']} vectors, {res['behaviours']} results, violations {sorted(res['violations'])}, {res['wall_s']}s")
    return res

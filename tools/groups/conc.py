"""Concurrency group: XsConcurrent (code layer, TLC) + TraceFollow (observer) bound to
Store::append / Store::read / read_sync polling through the gate scheduler.
Decides C02 C03 C11 and the follow parts of C06 C09 C10."""
import glob
import json
import os
import random
import shutil
import time
from concurrent.futures import ThreadPoolExecutor

from common import (SPEC, XSV, ToolError, log, model_check, scratch, sh, tlc)

PROPS = ["C02", "C03", "C06", "C09", "C10", "C11"]

PLANS = {
    "PlanFF": {"w1": [["f", 0], ["f", 0]], "w2": [["f", 0], ["f", 0]]},
    "PlanFE": {"w1": [["e", 0], ["f", 0]], "w2": [["f", 0], ["e", 0]]},
    "PlanCtx": {"w1": [["f", 0], ["e", 1]], "w2": [["f", 1], ["f", 0]]},
    "Plan3": {"w1": [["f", 0], ["f", 0], ["f", 0]], "w2": [["f", 0]]},
}
HISTS = {"Hist0": [], "Hist1": [0], "Hist2": [0, 0], "Hist3c": [0, 1, 0]}

COMMON = ("C02_PollerNoMiss C02_BroadcastOrder C03_Increasing C06_Scope StartOK C03_ThresholdOnce "
          "C03_ThresholdPlaced C11_LimitNotExceeded C11_LimitCloses C11_TailNoHistory C11_PulseOnlyIfAsked "
          "C11_NoSilentGap C11_ClosedIsFinal C09_EphemeralNotStored")

# name, plan, history, B, M, follow, tail, last, limit, rctx, extra invariants
CONFIGS = [
    ("ff", "PlanFF", "Hist1", 3, 2, "on", False, 0, 0, -1, "C03_Complete"),
    ("fe", "PlanFE", "Hist2", 3, 2, "on", False, 0, 0, -1, "LostOnlyByKnown"),
    ("lim1", "PlanFF", "Hist1", 3, 2, "on", False, 0, 1, -1, ""),
    ("lim2", "PlanFF", "Hist2", 3, 2, "on", False, 0, 2, -1, ""),
    ("lim3hb", "PlanFE", "Hist2", 3, 2, "hb", False, 0, 3, -1, ""),
    ("hb", "PlanFF", "Hist1", 3, 2, "hb", False, 0, 0, -1, "C03_Complete"),
    ("tail", "PlanFE", "Hist2", 3, 2, "on", True, 0, 0, -1, ""),
    ("ctx0", "PlanCtx", "Hist3c", 3, 2, "on", False, 0, 0, 0, "LostOnlyByKnown"),
    ("ctx1", "PlanCtx", "Hist3c", 3, 2, "on", False, 0, 2, 1, ""),
    ("last", "PlanFF", "Hist2", 3, 2, "on", False, 1, 0, -1, "C03_Complete"),
    ("lag", "Plan3", "Hist1", 1, 1, "hb", False, 0, 0, -1, ""),
    ("off", "PlanFF", "Hist2", 3, 2, "off", False, 0, 0, -1, ""),
    ("off1", "PlanFF", "Hist2", 3, 2, "off", False, 1, 1, -1, ""),
    # the last history frame is dated 6 ids ahead of the clock (an imported frame): model only - the conformance side of
    # this known finding is the follow probes of the http / cli groups. (C02_PollerNoMiss is not claimed here: with an
    # imported id ahead of the clock the appended ids sort below a frame already seen - the clause says "imports excepted")
    ("future", "PlanFF", "Hist2", 3, 2, "on", False, 0, 0, -1, "LostOnlyByKnown"),
]
AHEAD = {"future": 6}
MODEL_ONLY = {"future"}
QUICK_MC = ["ff", "fe", "lim1", "lim2", "tail", "ctx0", "ctx1", "last", "off", "off1", "future"]
THOROUGH_MC = [c[0] for c in CONFIGS]

# spec mutants: flag switched off in config -> invariant TLC must report
SPEC_MUTANTS = [("ff", "UseLock", "C02_PollerNoMiss"), ("ff", "DedupLe", "C03_Increasing"),
                ("ff", "SubFirst", "C03_Complete"), ("ff", "CommitFirst", "C03_Complete"),
                ("lim1", "LimitFix", "C11_LimitNotExceeded"), ("lim3hb", "HbStops", "C11_LimitCloses"),
                # not a mutant but a witness: the model reproduces known finding C03-future-dated-history-drops-live
                # (flag None: nothing switched off, the invariant named is added and must be reported)
                ("future", None, "C03_Complete")]

QUICK_LIVE = ["lim1", "off1", "tail"]
THOROUGH_LIVE = [c[0] for c in CONFIGS]

TIERS = {
    "quick": dict(mc=QUICK_MC, live=QUICK_LIVE, sim=40, sim_depth=70, rnd=500, rnd_steps=120, chunk=150, stress=4),
    "thorough": dict(mc=THOROUGH_MC, live=THOROUGH_LIVE, sim=400, sim_depth=90, rnd=8000, rnd_steps=200, chunk=500, stress=40),
}


def cfg_text(c, gen=False, flags=None, extra_inv=None):
    name, plan, hist, B, M, follow, tail, last, limit, rctx, extra = c
    fl = dict(UseLock=True, DedupLe=True, SubFirst=True, CommitFirst=True, LimitFix=True, HbStops=True)
    fl.update(flags or {})
    rc = {-1: "ALLC", 0: "RC0", 1: "RC1"}[rctx]
    t = ["SPECIFICATION Spec", "CONSTANTS", '  Writers = {"w1", "w2"}', f"  Plan <- {plan}", f"  History <- {hist}",
         f"  B = {B}", f"  M = {M}", f'  Follow = "{follow}"', f"  OptTail = {str(tail).upper()}",
         f"  OptLast = {last}", f"  Limit = {limit}", f"  RCtx <- {rc}", "  MaxPulse = 2"]
    t += [f"  {k} = {str(v).upper()}" for k, v in fl.items()]
    t += [f"  Ahead = {AHEAD.get(name, 0)}"]
    t += [f"  Gen = {str(gen).upper()}"]
    common = COMMON.replace("C02_PollerNoMiss ", "") if name in AHEAD else COMMON
    if gen:
        t += ["INVARIANT GenInv"]
    else:
        t += ["VIEW mcview", f"INVARIANT {common} {extra} {extra_inv or ''}"]
    t += ["CHECK_DEADLOCK FALSE"]
    return "\n".join(t) + "\n"


LIVE_COMMON = "L_WritersFinish L_Settles L_LimitEnds L_NonFollowEnds L_LagEnds L_ThresholdSent"
# liveness configurations (FairSpec: weak fairness per actor): every fair schedule settles, ends the stream when it is
# due, completes the poller and the open follower.  quick: the three cheapest; thorough: all
# liveness spec mutants / vacuity guards: flag switched off -> TLC must report the temporal property
LIVE_MUTANTS = [("lim3hb", "HbStops", "L_LimitEnds")]


def live_cfg_text(c, flags=None):
    """the same constants under FairSpec with the temporal properties (no VIEW: Gen = FALSE keeps hist empty)"""
    base = cfg_text(c, flags=flags).splitlines()
    keep = [l for l in base if not l.startswith(("SPECIFICATION", "VIEW", "INVARIANT", "CHECK_DEADLOCK"))]
    props = LIVE_COMMON
    if c[0] not in AHEAD:
        props += " L_PollerComplete"
    if "C03_Complete" in c[10]:
        props += " L_FollowerComplete"
    if "LostOnlyByKnown" in c[10]:
        props += " L_FollowerCompleteKnown"
    return "\n".join(["SPECIFICATION FairSpec"] + keep + [f"PROPERTY {props}", "CHECK_DEADLOCK FALSE"]) + "\n"


def write_cfgs():
    for c in CONFIGS:
        for p, t in ((os.path.join(SPEC, f"MC_conc_{c[0]}.cfg"), cfg_text(c)),
                     (os.path.join(SPEC, f"MC_conc_live_{c[0]}.cfg"), live_cfg_text(c))):
            if not os.path.exists(p) or open(p).read() != t:
                open(p, "w").write(t)


def check_live_mutants(d):
    res = []
    for cname, flag, prop in LIVE_MUTANTS:
        c = [x for x in CONFIGS if x[0] == cname][0]
        cfgp = os.path.join(d, f"livemut_{cname}_{flag}.cfg")
        open(cfgp, "w").write(live_cfg_text(c, flags={flag: False}))
        out, _, _, _ = tlc("MCXsConcurrent.tla", cfgp, workers=8, timeout=1200)
        caught = ("Temporal properties were violated" in out) or (f"Temporal property {prop} was violated" in out)
        res.append({"cfg": cname, "flag": flag, "property": prop, "caught": caught})
        if not caught:
            raise ToolError(f"liveness spec mutant {cname}/{flag} not caught: the temporal properties are vacuous")
    return res


def scenario_of(c, s, seed, sched=None, random_steps=0):
    name, plan, hist, B, M, follow, tail, last, limit, rctx, _ = c
    return {"s": s, "seed": seed, "cfg": name, "history": HISTS[hist], "plans": PLANS[plan], "B": B, "M": M,
            "follow": follow, "tail": tail, "last": last, "limit": limit, "rctx": rctx, "sched": sched,
            "random_steps": random_steps, "poller": True}


def gen_schedules(c, n, depth, seed, d):
    cfgp = os.path.join(d, f"gen_{c[0]}.cfg")
    open(cfgp, "w").write(cfg_text(c, gen=True))
    out, _, _, _ = tlc("MCXsConcurrent.tla", cfgp, workers=1,
                       extra=f"-simulate num={n} -depth {depth} -seed {seed}", timeout=600)
    scheds = set()
    for line in out.splitlines():
        if line.startswith('<<"SCHED"'):
            sj = line[line.index(",") + 1:].rstrip(">").strip()
            scheds.add(json.loads(sj))
    return [json.loads(x) for x in sorted(scheds)]


def random_scenario(rng, s):
    nw = rng.choice([1, 2, 2, 3])
    plans = {}
    for i in range(nw):
        plans[f"w{i+1}"] = [[rng.choice(["f", "f", "e"]), rng.choice([0, 0, 1])] for _ in range(rng.choice([1, 2, 2, 3]))]
    nh = rng.choice([0, 1, 2, 3, 4, 6])
    hist = [rng.choice([0, 0, 1]) for _ in range(nh)]
    follow = rng.choice(["on", "on", "on", "hb", "hb", "off"])
    tail = rng.random() < 0.2
    limit = rng.choice([0, 0, 0, 1, 2, 3, 4])
    last = rng.choice([0, 0, 0, 1, 2]) if nh else 0
    rctx = rng.choice([-1, -1, 0, 1])
    return {"s": s, "seed": rng.randrange(1 << 30), "cfg": "random", "history": hist, "plans": plans,
            "B": rng.choice([1, 2, 3, 8, 1024]), "M": rng.choice([1, 2, 3, 100]), "follow": follow, "tail": tail,
            "last": min(last, nh), "limit": limit, "rctx": rctx, "sched": None,
            "random_steps": rng.choice([40, 80, 160]), "poller": True, "nctx": 2}


def validate(trace_file):
    out, gen, dist, rc = tlc("TraceFollow.tla", "TraceFollow.cfg", workers=1, env={"TRACE": trace_file},
                             timeout=1800, xmx="3g")
    viols, verdict, toolerr = [], None, 0
    for line in out.splitlines():
        if line.startswith('"VIOL '):
            viols.append(json.loads(json.loads(line)[5:]))
        elif line.startswith('"VERDICT '):
            verdict = json.loads(json.loads(line)[8:])
        elif line.startswith('"TOOLERR '):
            toolerr += 1
    if verdict is None or "No error has been found" not in out:
        raise ToolError(f"trace validation did not finish for {trace_file}:\n" + out[-4000:])
    return viols, verdict, dist, toolerr


def check_spec_mutants(d):
    """each mechanism switched off in the model must make TLC report the invariant (vacuity guard)"""
    res = []
    for cname, flag, inv in SPEC_MUTANTS:
        c = [x for x in CONFIGS if x[0] == cname][0]
        cfgp = os.path.join(d, f"mut_{cname}_{flag}.cfg")
        open(cfgp, "w").write(cfg_text(c, flags={flag: False}) if flag else cfg_text(c, extra_inv=inv))
        out, _, _, _ = tlc("MCXsConcurrent.tla", cfgp, workers=8, timeout=900)
        caught = "is violated" in out
        res.append({"cfg": cname, "flag": flag, "caught": caught})
        if not caught:
            raise ToolError(f"spec mutant {cname}/{flag} not caught: the invariants are vacuous")
    return res


def run(tier, seed):
    cfg = TIERS[tier]
    t0 = time.time()
    write_cfgs()
    res = {"group": "conc", "tier": tier, "seed": seed}
    res["mc"] = [model_check("MCXsConcurrent.tla", f"MC_conc_{n}.cfg") for n in cfg["mc"]]
    res["live"] = [model_check("MCXsConcurrent.tla", f"MC_conc_live_{n}.cfg", workers=6) for n in cfg["live"]]
    d = scratch("conc")
    try:
        if tier == "thorough":
            res["spec_mutants"] = check_spec_mutants(d)
            res["live_mutants"] = check_live_mutants(d)
        rng = random.Random(seed)
        scs = []
        s = 0
        for c in CONFIGS:
            if c[0] in MODEL_ONLY:
                continue
            scheds = gen_schedules(c, cfg["sim"], cfg["sim_depth"], seed + 7, d)
            rng.shuffle(scheds)
            for sch in scheds[:cfg["sim"]]:
                s += 1
                scs.append(scenario_of(c, s, rng.randrange(1 << 30), sched=sch))
            # implementation-side exploration of the same scenario
            for _ in range(max(4, cfg["sim"] // 4)):
                s += 1
                scs.append(scenario_of(c, s, rng.randrange(1 << 30), sched=None, random_steps=cfg["rnd_steps"]))
        n_tlc = s
        for _ in range(cfg["rnd"]):
            s += 1
            scs.append(random_scenario(rng, 100000 + s))
        # hook-free stress (second, independent detector for C02/C03): production capacities, nobody gated
        for i in range(cfg["stress"]):
            s += 1
            nw = rng.choice([3, 4, 6])
            scs.append({"s": 200000 + s, "seed": rng.randrange(1 << 30), "cfg": "stress", "stress": True,
                        "history": [0] * rng.choice([0, 5, 150]),
                        "plans": {f"w{j+1}": [[rng.choice(["f", "f", "f", "e"]), rng.choice([0, 0, 1])] for _ in range(rng.choice([40, 80]))]
                                  for j in range(nw)},
                        "B": 1024, "M": 100, "follow": rng.choice(["on", "hb"]), "tail": False, "last": 0,
                        "limit": rng.choice([0, 0, 30]), "rctx": rng.choice([-1, -1, 0]), "sched": None, "random_steps": 0,
                        "poller": True, "nctx": 2, "read_after": rng.choice([0, 0, 5, 20])})
        rg = os.path.join(SPEC, "regress", "conc.ndjson")
        nreg = 0
        if os.path.exists(rg):
            for l in open(rg):
                if l.strip():
                    scs.append(json.loads(l))
                    nreg += 1
        inp = os.path.join(d, "sc.ndjson")
        with open(inp, "w") as f:
            for x in scs:
                f.write(json.dumps(x) + "\n")
        t1 = time.time()
        p = sh([XSV, "sched-run", "--in", inp, "--out", os.path.join(d, "trace"), "--jobs", "12",
                "--chunk", str(cfg["chunk"])], timeout=3000, env={"XSV_SCRATCH": d})
        stats = json.loads(p.stdout.strip().splitlines()[-1])
        t2 = time.time()
        files = sorted(glob.glob(os.path.join(d, "trace.*")), key=lambda x: int(x.rsplit(".", 1)[1]))
        with ThreadPoolExecutor(max_workers=8) as ex:
            outs = list(ex.map(validate, files))
        t3 = time.time()
        res["violations"] = {}
        known, states, toolerrs, nq = set(), 0, 0, 0
        sc_by_s = {x["s"]: x for x in scs}
        os.makedirs(os.path.join(os.path.dirname(SPEC), "replays"), exist_ok=True)
        for fidx, (v, verdict, dist, te) in enumerate(outs):
            states += dist
            toolerrs += te
            nq += verdict.get("scenarios", 0)
            known.update(verdict["known"])
            for x in v[:60]:
                sid = x["b"]
                evs, on = [], False
                for l in open(files[fidx]):
                    e = json.loads(l)
                    if e.get("e") == "reset":
                        on = e["s"] == sid
                    if on:
                        evs.append(e)
                path = os.path.join(os.path.dirname(SPEC), "replays", f"conc-s{sid}.json")
                json.dump({"group": "conc", "scenario": sc_by_s.get(sid), "violations": [x], "trace": evs}, open(path, "w"))
                for p_ in x["props"]:
                    res["violations"].setdefault(p_, []).append({"b": sid, "event": x["l"], "kind": x["e"], "replay": path})
        if toolerrs > max(3, len(scs) // 50):
            raise ToolError(f"{toolerrs} scenario processes died")
        res.update({"behaviours": nq, "events": stats["events"], "from_tlc": n_tlc, "random": cfg["rnd"],
                    "regress": nreg, "trace_states": states, "known": sorted(known), "harness_died": toolerrs,
                    "samples": [scs[0], scs[-1 - nreg] if len(scs) > nreg else scs[-1]],
                    "t_replay": round(t2 - t1, 1), "t_validate": round(t3 - t2, 1)})
    finally:
        shutil.rmtree(d, ignore_errors=True)
    res["wall_s"] = round(time.time() - t0, 1)
    log(f"conc group: {res['behaviours']} scenarios, {res['events']} events, violations {sorted(res['violations'])}, "
        f"known {res['known']}, {res['wall_s']}s")
    return res

"""Durability group: XsDurable (code layer, TLC) + TraceDurable (observer) bound to the real
Store through crash images.  Decides C04 and the crash halves of C10 and C07.

For every operation list (TLC -simulate behaviours of XsDurable, seeded random ones, a fixed
one that contains every kind of operation):
  * one run is recorded under strace; power-loss images are reconstructed for every
    store-mutating system call after the first ACK (tools/durimg.py),
  * the run is repeated under `xsv dur-killat --k K` for every K: real SIGKILLs on entry to the
    K-th store-mutating system call, counted over all threads; the directory left is the image,
  * every image is opened by the real Store::new in a fresh process (`xsv dur-recover`),
  * TLC judges every observation with spec/TraceDurable.tla.
"""
import base64
import hashlib
import json
import os
import random
import shutil
import signal
import subprocess
import time
from concurrent.futures import ThreadPoolExecutor

import durimg
from common import SPEC, XSV, ToolError, log, model_check, scratch, sh, tlc

PROPS = ["C04", "C10", "C07"]

BASE_MS = 1_700_000_000_000
ZERO = "0000000000000000000000000"

TIERS = {
    "quick": dict(mc=["MC_dur_quick.cfg"], mutants=False, tlc_runs=3, rnd_runs=2, ops=8, bulk=1,
                  max_points=400, bulk_points=40, rand_kills=0, jobs=10),
    "thorough": dict(mc=["MC_dur_quick.cfg", "MC_dur_thorough.cfg", "MC_dur_ops4.cfg"], mutants=True, tlc_runs=9, rnd_runs=8, ops=10,
                     bulk=2, max_points=400, bulk_points=120, rand_kills=240, jobs=10),
}

# spec mutants: config -> (crash kind that must expose it, substring of the reason)
MUTANTS = {
    # fjall flushes its user-space buffer at every commit (durability = Buffer by default), so
    # leaving persist(SyncAll) out, or downgrading it, costs power-loss durability only ...
    "MC_dur_mut_nopersist.cfg": ("power", "neither Apply"),
    "MC_dur_mut_buffer.cfg": ("power", "neither Apply"),
    "MC_dur_mut_remnopersist.cfg": ("power", "neither Apply"),
    # ... and loses acknowledged writes at a process kill only under manual_journal_persist
    "MC_dur_mut_nopersist_manual.cfg": ("kill", "neither Apply"),
    "MC_dur_mut_three.cfg": ("kill", "partitions disagree"),
    "MC_dur_mut_casafter.cfg": ("kill", "content is missing"),
}
WITNESSES = {"MC_dur_wit_torn.cfg": "SomeTornBatchDropped", "MC_dur_wit_inflight.cfg": "SomeInflightSurvives"}

# the fixed list: every kind of operation, both CAS paths, a frame larger than the journal buffer
CANONICAL = [
    {"op": "append", "id": 1, "f": {"topic": "tA", "ctx": 0, "ttl": "forever", "meta": "m", "hash": "h1"}, "via": "hash"},
    {"op": "append", "id": 2, "f": {"topic": "xs.context", "ctx": 0, "ttl": "forever", "meta": "m", "hash": "none"}},
    {"op": "append", "id": 3, "f": {"topic": "tA", "ctx": 2, "ttl": "none", "meta": "mBig", "hash": "h2"}, "via": "stream"},
    {"op": "append", "id": 4, "f": {"topic": "tB", "ctx": 0, "ttl": "head:1", "meta": "m", "hash": "none"}, "via": "http"},
    {"op": "remove", "id": 1},
    {"op": "import", "id": -94, "f": {"topic": "tA", "ctx": 0, "ttl": "forever", "meta": "m", "hash": "none"}},
    {"op": "append", "id": 7, "f": {"topic": "tB", "ctx": 0, "ttl": "head:1", "meta": "m", "hash": "h1"}, "via": "http"},
    {"op": "gc", "id": 4},
]


# a frame the collector evicted is then removed by the user: that remove is acknowledged although it finds nothing to
# delete - whatever made the frame disappear has to be as durable as the acknowledgement (seeded change C04-c)
COLLECTED = [
    {"op": "append", "id": 1, "f": {"topic": "tB", "ctx": 0, "ttl": "head:1", "meta": "m", "hash": "none"}},
    {"op": "append", "id": 2, "f": {"topic": "tB", "ctx": 0, "ttl": "head:1", "meta": "m", "hash": "h1"}},
    {"op": "gc", "id": 1},
    {"op": "remove", "id": 1},
    {"op": "append", "id": 5, "f": {"topic": "tA", "ctx": 0, "ttl": "head:1", "meta": "m", "hash": "none"}},
    {"op": "append", "id": 6, "f": {"topic": "tA", "ctx": 0, "ttl": "forever", "meta": "mBig", "hash": "none"}},
    {"op": "gc", "id": 5},
    {"op": "remove", "id": 5},
    {"op": "append", "id": 9, "f": {"topic": "tB", "ctx": 0, "ttl": "forever", "meta": "m", "hash": "none"}},
]


# ------------------------------------------------------------------------------ concretisation
def scru128(ts, hi=0, lo=0, ent=0):
    v = (ts << 80) | (hi << 56) | (lo << 32) | ent
    s = ""
    for _ in range(25):
        v, r = divmod(v, 36)
        s = "0123456789abcdefghijklmnopqrstuvwxyz"[r] + s
    return s


def integrity(b):
    return "sha256-" + base64.b64encode(hashlib.sha256(b).digest()).decode()


TOPIC_SETS = [("a", "b"), ("topic", "topic.x"), ("a", "a\u0001"), ("é", "é́"), ("x.", "x"),
              ("xs.contex", "xs.context."), ("p" * 300 + "a", "p" * 300 + "ab")]


class Run:
    """one operation list, concretised"""

    def __init__(self, b, aops, seed, bulk=False):
        self.b, self.aops, self.bulk = b, aops, bulk
        rng = random.Random(seed * 7919 + b)
        sets = TOPIC_SETS
        if any(o.get("via") == "http" for o in aops):      # the list insists on the HTTP entry point
            sets = [t for t in TOPIC_SETS if all(ch.isalnum() or ch in "._-" for x in t for ch in x) and len(t[0]) < 200]
        ta, tb = sets[rng.randrange(len(sets))]
        self.topics = {"tA": ta, "tB": tb, "xs.context": "xs.context"}
        self.contents = {"h1": b"hello " + str(seed).encode(),
                         "h2": bytes((i * 7 + seed) % 251 for i in range(rng.choice([8193, 9000, 70000])))}
        self.hashes = {k: integrity(v) for k, v in self.contents.items()}
        self.big = 9000 if not bulk else 262144
        self.metas, self.cops, self.owner = {0: None}, [], {}
        self.via = {}
        urlsafe = all(ch.isalnum() or ch in "._-" for t in (ta, tb) for ch in t) and len(ta) < 200
        for k, o in enumerate(aops, 1):
            if o["op"] in ("append", "import"):
                f = o["f"]
                self.owner[o["id"]] = k
                meta = {"i": k} if f["meta"] == "m" else {"i": k, "big": "x" * self.big}
                self.metas[o["id"]] = meta
                ctx = {} if f["ctx"] == 0 else {"ref": self.owner[f["ctx"]]}
                ttl = None if f["ttl"] == "none" else f["ttl"]
                if o["op"] == "append":
                    c = self.contents.get(f["hash"])
                    # entry point: Store API with cacache write_hash (mmap) / streaming writer, or the
                    # HTTP front end (POST /{topic}, src/api.rs) - the latter needs a topic that can
                    # stand in a request line and a meta that fits a header
                    via = o.get("via") or (["hash", "stream", "http"][(k + seed) % 3] if c is not None
                                           else ("http" if (k + seed) % 4 == 0 else "api"))
                    if via == "http" and (bulk or not urlsafe or f["meta"] == "mBig" and self.big > 9000):
                        via = "stream" if c is not None else "api"
                    self.via[k] = via
                    self.cops.append({"op": "append", "topic": self.topics[f["topic"]], "ctx": ctx, "ttl": ttl,
                                      "meta": meta, "content": base64.b64encode(c).decode() if c is not None else None,
                                      "via": via})
                else:
                    ts = BASE_MS + (-1_000_000 if o["id"] < 0 else 1_000_000) + k
                    self.cops.append({"op": "import", "ctx": ctx,
                                      "frame": {"id": scru128(ts, ent=k), "topic": self.topics[f["topic"]],
                                                "context_id": ZERO, "ttl": ttl, "meta": meta,
                                                "hash": self.hashes.get(f["hash"])}})
            elif o["op"] == "remove":
                self.cops.append({"op": "remove", "target": {"ref": self.owner[o["id"]]}})
            elif o["op"] in ("gc", "drain"):
                self.cops.append({"op": "drain"})
            else:
                raise ToolError(f"operation {o}")
        self.http = "http" in self.via.values()
        self.rtopics = {v: k for k, v in self.topics.items()}
        self.rtopics["xs.start"] = "tStart"
        self.rhashes = {v: k for k, v in self.hashes.items()}

    def opsfile(self, d):
        p = os.path.join(d, f"ops{self.b}.json")
        if not os.path.exists(p):
            json.dump({"clock": BASE_MS, "ops": self.cops}, open(p, "w"))
        return p

    # what the client was told, in the vocabulary of XsDurProps
    def told(self, acks):
        """acks: {k: result json}.  -> (abstract ops for the observer, ackres events)"""
        out, res = [], []
        for k, o in enumerate(self.aops, 1):
            a = acks.get(k)
            if o["op"] in ("append", "import"):
                f = dict(o["f"])
                if f["topic"] == "xs.context":
                    f["ttl"] = "forever"
                if self.via.get(k) == "http" and f["ttl"] == "none":
                    f["ttl"] = "forever"      # POST /{topic} without ttl= stores the default explicitly
                if a is not None and not a.get("ok"):
                    out.append({"op": "noop", "id": 0})
                else:
                    out.append({"op": o["op"], "id": o["id"], "f": f})
                if a is not None:
                    res.append({"e": "ackres", "k": k, "ok": bool(a.get("ok")), "expect": True})
            elif o["op"] == "remove":
                out.append({"op": "remove", "id": o["id"]})
            else:
                out.append({"op": "noop", "id": 0})
        if self.http:
            # api::serve appended xs.start before anything else: operation 0 of the history
            out.insert(0, {"op": "append", "id": 0, "f": {"topic": "tStart", "ctx": 0, "ttl": "none",
                                                          "meta": "mNone", "hash": "none"}})
        return out, res


def nack(acks):
    return sum(1 for k in acks if k >= 1)


def parse_acks(path):
    """-> ({k: result}, done?)"""
    acks, done = {}, False
    if os.path.exists(path):
        for line in open(path, errors="replace"):
            if line.startswith("ACK ") and line.endswith("\n"):
                _, k, js = line.split(" ", 2)
                acks[int(k)] = json.loads(js)
            elif line.startswith("OPEN ") and line.endswith("\n"):
                acks[0] = json.loads(line[5:])
            elif line.startswith("DONE"):
                done = True
    return acks, done


# ------------------------------------------------------------------------------ abstraction
EMPTY_OBS = {"open": False, "panic": False, "again": True, "stream": [], "idxT": [], "idxC": [], "contexts": [], "readAll": [],
             "readCtx": [], "get": [], "head": [], "cas": [], "accept": []}


def abstract(run, acks, obs, nacked):
    """concrete observation of `xsv dur-recover` -> observation record of XsDurProps"""
    if not obs.get("open"):
        return dict(EMPTY_OBS), obs.get("panic", "")
    if "probe_panic" in obs:
        return dict(EMPTY_OBS, open=True, panic=True), obs["probe_panic"]
    ids = {ZERO: 0}
    if acks.get(0, {}).get("start"):
        ids[acks[0]["start"]] = 0          # the xs.start frame of api::serve: operation 0
    for k, o in enumerate(run.aops, 1):
        if o["op"] == "import":
            ids[run.cops[k - 1]["frame"]["id"]] = o["id"]
        elif o["op"] == "append" and k in acks and acks[k].get("id"):
            ids[acks[k]["id"]] = o["id"]
    # the id of an append that was in flight is not known to anybody: the one unknown id is its
    nxt = run.aops[nacked] if nacked < len(run.aops) else None
    free = [nxt["id"]] if nxt is not None and nxt["op"] == "append" and (nacked + 1) not in acks else []
    alien = [900]

    def aid(s):
        if s not in ids:
            if free:
                ids[s] = free.pop()
            else:
                alien[0] += 1
                ids[s] = alien[0]
        return ids[s]

    def frame(key, f):
        if not isinstance(f, dict) or "garbled" in f:
            return {"id": aid(key), "topic": "t?", "ctx": -1, "ttl": "?", "meta": "m?", "hash": "h?"}
        a = aid(f.get("id", key))
        mtok = "m?"
        if a in run.metas and f.get("meta") == run.metas[a]:
            mtok = "mNone" if run.metas[a] is None else ("mBig" if "big" in run.metas[a] else "m")
        h = f.get("hash")
        return {"id": a if key is None or f.get("id") == key else -aid(key) - 5000,
                "topic": run.rtopics.get(f.get("topic"), "t?"),
                "ctx": aid(f.get("context_id")),
                "ttl": f.get("ttl") if f.get("ttl") is not None else "none",
                "meta": mtok,
                "hash": "none" if h is None else run.rhashes.get(h, "h?")}

    # the raw primary partition first, so that the unknown id is bound to the frame itself
    stream = [frame(e[0], e[1]) for e in obs["stream"]]
    o = {
        "open": True, "panic": False, "again": bool(obs.get("again", True)),
        "stream": stream,
        "idxT": [[aid(e[0]), run.rtopics.get(e[1], "t?"), aid(e[2])] for e in obs["idx_topic"]],
        "idxC": [[aid(e[0]), aid(e[1])] for e in obs["idx_context"]],
        "contexts": [aid(c) for c in obs["contexts"]],
        "readAll": [frame(None, f) for f in obs["read_all"]],
        "readCtx": [[aid(c), [aid(i) for i in v]] for c, v in sorted(obs["read_ctx"].items())],
        "get": [[aid(i), [] if f is None else [frame(i, f)]] for i, f in sorted(obs["get"].items())],
        "head": [[run.rtopics.get(h[0], "t?"), aid(h[1]), [] if h[2] is None else [aid(h[2])]] for h in obs["head"]
                 if h[0] != "zz.probe"],
        "cas": [[run.rhashes.get(h, "h?"), bool(v.get("ok"))] for h, v in sorted(obs["cas"].items())],
        "accept": [[aid(c), bool(v)] for c, v in sorted(obs["accept"].items())],
    }
    return o, obs.get("again_note", "")


# ------------------------------------------------------------------------------ one run
def recover(img_dir, probe, again=True):
    p = subprocess.run([XSV, "dur-recover", img_dir, "--probe", probe], stdout=subprocess.PIPE,
                       stderr=subprocess.PIPE, timeout=120)
    out = p.stdout.decode(errors="replace").strip().splitlines()
    if p.returncode != 0 or not out:
        # the process died without reporting (abort, stack overflow, signal): the store did not reopen
        return {"open": False, "panic": f"recover process exit {p.returncode}: {p.stderr.decode(errors='replace')[-300:]}"}
    o = json.loads(out[-1])
    if o.get("open") and "probe_panic" not in o and again:
        # the recovered store took a few more appends (the accept probes) and stopped; it must come
        # up once more with everything it showed the first time (journal truncated, then appended to)
        o2 = recover(img_dir, probe, again=False)
        first = {e[0] for e in o["stream"]}
        o["again"] = bool(o2.get("open")) and "probe_panic" not in o2 and first <= {e[0] for e in o2.get("stream", [])}
        if not o["again"]:
            o["again_note"] = str(o2.get("panic") or o2.get("probe_panic") or "frames missing after the second reopen")
    return o


def probe_file(run, acks, d, tag):
    ids = [a["id"] for a in acks.values() if a.get("id")] + [a["start"] for a in acks.values() if a.get("start")]
    ids += [c["frame"]["id"] for c in run.cops if c["op"] == "import"]
    ctxs = [acks[k]["id"] for k, o in enumerate(run.aops, 1)
            if o["op"] == "append" and o["f"]["topic"] == "xs.context" and k in acks and acks[k].get("id")]
    heads = sorted({(run.topics[o["f"]["topic"]], c) for o in run.aops if o["op"] in ("append", "import")
                    for c in [ZERO] + ctxs} | {("xs.start", ZERO)})
    p = os.path.join(d, f"probe-{tag}.json")
    json.dump({"clock": BASE_MS, "ids": sorted(set(ids)), "ctxs": ctxs, "heads": [list(h) for h in heads]}, open(p, "w"))
    return p


def sample(points, limit, rng, must=()):
    """all points if they fit; otherwise the `must` points (and their neighbours) first - crash
    points around memtable flush / journal rotation / manifest rewrite in bulk runs -, then the
    first and last few, then a random choice"""
    if len(points) <= limit:
        return list(points)
    pts = set(points)
    keep = {m for m in must if m in pts}
    if len(keep) > (limit * 3) // 4:
        keep = set(rng.sample(sorted(keep), (limit * 3) // 4))
    for m in sorted(keep):
        if len(keep) < (limit * 3) // 4:
            keep |= {q for q in (m - 1, m + 1) if q in pts}
    edge = max(1, (limit - len(keep)) // 4)
    keep |= set(points[:edge]) | set(points[-edge:])
    rest = [p for p in points if p not in keep]
    if limit > len(keep):
        keep |= set(rng.sample(rest, min(len(rest), limit - len(keep))))
    return sorted(keep)


def boring(name, path):
    """the steady state of a run: journal appends and fsyncs, CAS files, ACK lines"""
    return ("/cacache/" in "/" + path or (name in ("write", "fsync") and "fjall/journals/" in path)
            or (name == "write" and "/segments/" in path) or "fjall" not in path)


def do_run(run, d, cfg, seed, pool):
    """-> (trace events, stats).  Raises ToolError when the machinery is unsure."""
    rng = random.Random(seed * 104729 + run.b)
    opsf = run.opsfile(d)
    rd = os.path.join(d, f"r{run.b}")
    os.makedirs(rd)
    stats = {"b": run.b, "ops": len(run.aops)}

    limit = cfg["bulk_points"] if run.bulk else cfg["max_points"]

    def record(attempt):
        """(1) the recorded run, (2) its power-loss images; ImgError = reconstruction unsure"""
        st, images = {}, []
        # (1) the recorded run
        rec_dir, rec_ack, rec_log = (os.path.join(rd, f"rec{attempt}"), os.path.join(rd, f"rec{attempt}.ack"),
                                     os.path.join(rd, f"rec{attempt}.strace"))
        p = sh(["strace", "-f", "-y", "-xx", "-s", "4000000", "-o", rec_log, "-e", "trace=" + durimg.MUTATING,
                XSV, "dur-child", rec_dir, "--ops", opsf, "--ack", rec_ack], timeout=900, check=False)
        acks, done = parse_acks(rec_ack)
        if p.returncode != 0 or not done:
            raise ToolError(f"run {run.b}: the recorded execution did not complete (exit {p.returncode}, "
                            f"{len(acks)} acks): {p.stdout[-500:]}")
        told, ackres = run.told(acks)
        events = [{"e": "reset", "b": run.b, "ops": told}] + ackres

        # (2) power-loss images
        try:
            evs, pending = durimg.parse(rec_log, rec_dir, rec_ack)
            rep = durimg.Replayer(rec_dir)
            first = next((i for i, e in enumerate(evs) if e["e"] == "ack" and e["line"].startswith("ACK 1 ")), None)
            if first is None:
                raise durimg.ImgError("no ACK 1 in the strace log")
            must = [i for i, e in enumerate(evs, 1) if i > first and not boring(e["e"], e.get("p", ""))]
            points = sample(list(range(first + 1, len(evs) + 1)), limit, rng, must)
            st["power_points_structural"] = len(set(must) & set(points))
            pset, seen = set(points), set()
            probe_all = probe_file(run, acks, rd, f"rec{attempt}")
            n_pl = 0
            for i, ev in enumerate(evs, 1):
                rep.apply(ev)
                if i not in pset:
                    continue
                na = rep.nacked()
                for (variant, nsname, mode, cut) in rep.variants():
                    fp = (rep.describe(nsname, mode, cut), na)
                    if fp in seen:
                        continue
                    seen.add(fp)
                    files = rep.files(nsname, mode, cut)
                    dest = os.path.join(rd, f"pl{attempt}-{i}-{variant}")
                    durimg.Replayer.materialise(files, dest)
                    n_pl += 1
                    images.append(("power", variant, i, na, acks, pool.submit(recover_and_drop, dest, probe_all)))
            try:
                st["selfcheck_entries"] = durimg.selfcheck(rep, rec_dir)
            except durimg.ImgError:
                if not pending:
                    raise
                # a write of a background thread (collector) raced with the end of the process
                for ev in pending:
                    rep.apply(ev)
                st["selfcheck_entries"] = durimg.selfcheck(rep, rec_dir)
                st["pending_writes_at_exit"] = len(pending)
            st["syscalls_replayed"] = len(evs)
            st["power_points"] = len(points)
        except durimg.ImgError:
            for im in images:           # let the recoveries already under way finish and clean up
                im[5].result()
            raise

        shutil.rmtree(rec_dir, ignore_errors=True)
        os.unlink(rec_log)
        return events, images, st

    for attempt in range(3):
        try:
            events, images, st = record(attempt)
            stats.update(st)
            stats["record_attempts"] = attempt + 1
            break
        except durimg.ImgError as e:
            log(f"run {run.b}: power-loss reconstruction unsure ({e}); recording again")
            if attempt == 2:
                raise ToolError(f"run {run.b}: power-loss reconstruction: {e}")

    # (3) kill images: count, then one real kill per store-mutating system call after ACK 1
    cnt_dir, cnt_ack, cnt_log = os.path.join(rd, "cnt"), os.path.join(rd, "cnt.ack"), os.path.join(rd, "cnt.log")
    r = kill_run(run, opsf, cnt_dir, cnt_ack, 0, cnt_log)
    if r["killed"] or r["exit"] != 0:
        raise ToolError(f"run {run.b}: counting run failed: {r}")
    total, first_k, seen_ack, kmust = r["count"], None, 0, []
    for line in open(cnt_log):
        n, _tid, name, path = line.rstrip("\n").split(" ", 3)
        if path == cnt_ack:
            seen_ack += 1
            if seen_ack == 3 and first_k is None:   # the open, OPEN, ACK 1: the next call is the first crash point
                first_k = int(n) + 1
        elif first_k is not None and not boring(name, path):
            kmust.append(int(n))
    if first_k is None:
        raise ToolError(f"run {run.b}: no ACK 1 in the counting run")
    a_cnt, _ = parse_acks(cnt_ack)
    images.append(("kill", "kill-end", total + 1, nack(a_cnt), a_cnt,
                   pool.submit(recover_and_drop, cnt_dir, probe_file(run, a_cnt, rd, "cnt"))))
    kpoints = sample(list(range(first_k, total + 1)), limit, rng, kmust)
    stats["kill_points_structural"] = len(set(kmust) & set(kpoints))
    stats["kill_points"] = len(kpoints)
    stats["mutating_syscalls"] = total

    def one_kill(k):
        kd, ka = os.path.join(rd, f"k{k}"), os.path.join(rd, f"k{k}.ack")
        r = kill_run(run, opsf, kd, ka, k, None)
        a, _ = parse_acks(ka)
        if 1 not in a:
            raise ToolError(f"run {run.b}: kill point {k} fell before the first ACK ({r})")
        return k, a, recover_and_drop(kd, probe_file(run, a, rd, f"k{k}"))

    for fut in [pool.submit(one_kill, k) for k in kpoints]:
        k, a, obs = fut.result()
        images.append(("kill", "kill", k, nack(a), a, obs))

    # (3b) SIGKILL at random instants: crash points between system calls
    if cfg.get("rand_kills_per_run"):
        t0 = time.time()
        subprocess.run([XSV, "dur-child", os.path.join(rd, "tm"), "--ops", opsf, "--ack", os.path.join(rd, "tm.ack")],
                       stdout=subprocess.DEVNULL, stderr=subprocess.DEVNULL, timeout=900)
        total_t = time.time() - t0
        shutil.rmtree(os.path.join(rd, "tm"), ignore_errors=True)

        def one_rand(j, delay):
            kd, ka = os.path.join(rd, f"x{j}"), os.path.join(rd, f"x{j}.ack")
            p = subprocess.Popen([XSV, "dur-child", kd, "--ops", opsf, "--ack", ka],
                                 stdout=subprocess.DEVNULL, stderr=subprocess.DEVNULL)
            try:
                p.wait(timeout=delay)
            except subprocess.TimeoutExpired:
                os.kill(p.pid, signal.SIGKILL)
                p.wait()
            a, _ = parse_acks(ka)
            if 1 not in a:          # fell into the creation of the store: outside the quantifier
                shutil.rmtree(kd, ignore_errors=True)
                return None
            return j, a, recover_and_drop(kd, probe_file(run, a, rd, f"x{j}"))

        futs = [pool.submit(one_rand, j, rng.uniform(0.2, 1.1) * total_t) for j in range(cfg["rand_kills_per_run"])]
        nr = 0
        for fut in futs:
            r = fut.result()
            if r is not None:
                nr += 1
                images.append(("kill", "kill-random", r[0], nack(r[1]), r[1], r[2]))
        stats["random_kills"] = nr

    # (4) observations -> trace events
    nimg = 0
    for (kind, variant, k, na, a, obs) in images:
        if not isinstance(obs, dict):
            obs = obs.result()
        nimg += 1
        o, note = abstract(run, a, obs, na)
        events.append({"e": "image", "img": nimg, "kind": kind, "variant": variant, "k": k,
                       "acked": na + (1 if run.http else 0),
                       "inflight": na < len(run.aops), "o": o, "note": note[:300]})
    stats["images"] = nimg
    stats["power_images"] = sum(1 for i in images if i[0] == "power")
    stats["kill_images"] = sum(1 for i in images if i[0] == "kill")
    shutil.rmtree(rd, ignore_errors=True)
    return events, stats


def recover_and_drop(img_dir, probe):
    try:
        return recover(img_dir, probe)
    finally:
        shutil.rmtree(img_dir, ignore_errors=True)


def kill_run(run, opsf, kdir, kack, k, logf):
    cmd = [XSV, "dur-killat", "--k", str(k), "--prefix", kdir, "--prefix", kack]
    if logf:
        cmd += ["--log", logf]
    cmd += ["--", XSV, "dur-child", kdir, "--ops", opsf, "--ack", kack]
    p = subprocess.run(cmd, stdout=subprocess.PIPE, stderr=subprocess.PIPE, timeout=900)
    try:
        return json.loads(p.stdout.decode().strip().splitlines()[-1])
    except Exception:
        raise ToolError(f"dur-killat failed (exit {p.returncode}): {p.stderr.decode(errors='replace')[-500:]}")


# ------------------------------------------------------------------------------ operation lists
def gen_tlc(n, seed, depth=400):
    so, _, _, _ = tlc("MCXsDurable.tla", "MC_dur_gen.cfg", workers=1,
                      extra=f"-simulate num={n} -depth {depth} -seed {seed}", timeout=600)
    out = []
    for line in so.splitlines():
        if line.startswith('<<"REPLAY"'):
            s = line[line.index(",") + 1:].rstrip(">").strip()
            out.append(json.loads(json.loads(s)))
    if len(out) < n:
        raise ToolError("TLC generated too few behaviours:\n" + so[-2000:])
    return out[:n]


def gen_random(rng, nops):
    """seeded random operation list, biased towards what TLC's uniform choice rarely produces:
    contexts, head:N chains, frames larger than the journal buffer"""
    ops, frames, ctxs = [], {}, [0]
    for k in range(1, nops + 1):
        r = rng.random()
        live = [i for i in frames]
        if r < 0.12 and live:
            i = rng.choice(live)
            ops.append({"op": "remove", "id": i})
            frames.pop(i)
            if i in ctxs:
                ctxs.remove(i)
        elif r < 0.2 and any(o["op"] == "append" and o["f"]["ttl"].startswith("head") for o in ops):
            ops.append({"op": "gc", "id": 0})
        elif r < 0.3:
            i = k - 100 if rng.random() < 0.5 else k + 100
            f = {"topic": rng.choice(["tA", "tB", "xs.context"]), "ctx": 0, "ttl": "forever", "meta": "m", "hash": "none"}
            ops.append({"op": "import", "id": i, "f": f})
            frames[i] = f
            if f["topic"] == "xs.context":
                ctxs.append(i)
        elif r < 0.4:
            f = {"topic": "xs.context", "ctx": 0, "ttl": "forever", "meta": "m", "hash": "none"}
            ops.append({"op": "append", "id": k, "f": f})
            frames[k] = f
            ctxs.append(k)
        else:
            f = {"topic": rng.choice(["tA", "tB"]), "ctx": rng.choice(ctxs),
                 "ttl": rng.choice(["forever", "none", "head:1", "head:1", "head:2"]),
                 "meta": rng.choice(["m", "m", "mBig"]), "hash": rng.choice(["none", "h1", "h2"])}
            ops.append({"op": "append", "id": k, "f": f})
            frames[k] = f
    return ops


def gen_bulk(rng, n):
    """enough data to cross a memtable flush (16 MiB) and the journal rotation that goes with it"""
    ops = []
    for k in range(1, n + 1):
        if k % 20 == 7:
            ops.append({"op": "remove", "id": k - 3})
        else:
            ops.append({"op": "append", "id": k, "f": {"topic": "tA" if k % 3 else "tB", "ctx": 0,
                                                       "ttl": "head:2" if k % 16 == 0 else "forever",
                                                       "meta": "mBig", "hash": "h1" if k % 10 == 0 else "none"}})
    return ops


# ------------------------------------------------------------------------------ validation
def validate(trace_file):
    out, gen, dist, rc = tlc("TraceDurable.tla", "TraceDurable.cfg", workers=1, env={"TRACE": trace_file},
                             timeout=1800, xmx="3g")
    viols, verdict = [], None
    for line in out.splitlines():
        if line.startswith('"VIOL '):
            viols.append(json.loads(json.loads(line)[5:]))
        elif line.startswith('"VERDICT '):
            verdict = json.loads(json.loads(line)[8:])
    if verdict is None or "No error has been found" not in out:
        raise ToolError(f"trace validation did not finish for {trace_file}:\n" + out[-4000:])
    return viols, verdict, dist


def spec_mutants():
    """vacuity guard: every switched-off mechanism must make TLC report a violation of C04's invariant"""
    res = []
    for cfg, (kind, why) in MUTANTS.items():
        out, gen, dist, rc = tlc("MCXsDurable.tla", cfg, workers=4, timeout=600)
        flat = " ".join(out.split())
        ok = "Invariant INV_Durable is violated" in out and why in flat and (not kind or f'"WHY", "{kind}"' in flat)
        res.append({"cfg": cfg, "caught": ok})
        if not ok:
            raise ToolError(f"spec mutant {cfg} is not caught as expected (vacuous invariant?):\n" + out[-3000:])
    for cfg, inv in WITNESSES.items():
        out, gen, dist, rc = tlc("MCXsDurable.tla", cfg, workers=4, timeout=600)
        if f"Invariant {inv} is violated" not in out:
            raise ToolError(f"witness {inv} is unreachable in XsDurable (model too weak):\n" + out[-3000:])
        res.append({"cfg": cfg, "reached": True})
    return res


# ------------------------------------------------------------------------------ the group
def run(tier, seed):
    try:
        return _run(tier, seed)
    except ToolError:
        raise
    except Exception:      # a failure of this machinery must never look like a verdict
        import traceback
        raise ToolError("dur group: unexpected failure of the harness driver:\n" + traceback.format_exc()[-3000:])


def replay(path):
    """re-executes the operation list of a replay file (all crash points, all image kinds) and
    returns the violations found now; prints one line per violated image"""
    rp = json.load(open(path))
    cfg = dict(TIERS["quick"], rand_kills_per_run=0)
    d = scratch("durreplay")
    try:
        r = Run(rp["b"], rp["abstract_ops"], rp["seed"], bulk=rp.get("bulk", False))
        with ThreadPoolExecutor(max_workers=cfg["jobs"]) as pool:
            evs, st = do_run(r, d, cfg, rp["seed"], pool)
        tf = os.path.join(d, "trace.replay")
        with open(tf, "w") as f:
            for e in evs:
                f.write(json.dumps(e) + "\n")
        viols, verdict, _ = validate(tf)
        for v in viols:
            e = evs[v["l"] - 1]
            adv = " (advisory: stricter file-system contract)" if e.get("variant", "").startswith("pl-strict") else ""
            print(f"{','.join(v['props'])}: {v['e']}{adv}; crash point {e.get('k')} [{e.get('note', '')}]")
        print(f"{st['images']} images, {len(viols)} judged bad")
        return viols
    finally:
        shutil.rmtree(d, ignore_errors=True)


def _run(tier, seed):
    cfg = dict(TIERS[tier])
    t0 = time.time()
    res = {"group": "dur", "tier": tier, "seed": seed}
    res["mc"] = [model_check("MCXsDurable.tla", c, workers=8) for c in cfg["mc"]]
    if cfg["mutants"]:
        res["spec_mutants"] = spec_mutants()
    d = scratch("dur")
    try:
        rng = random.Random(seed)
        lists = [("canonical", CANONICAL), ("collected", COLLECTED)]
        lists += [("tlc", o) for o in gen_tlc(cfg["tlc_runs"], seed + 1)] if cfg["tlc_runs"] else []
        lists += [("random", gen_random(rng, cfg["ops"])) for _ in range(cfg["rnd_runs"])]
        runs = [Run(b, o, seed) for b, (_, o) in enumerate(lists)]
        runs += [Run(len(lists) + i, gen_bulk(rng, 80), seed, bulk=True) for i in range(cfg["bulk"])]
        cfg = dict(cfg, rand_kills_per_run=cfg["rand_kills"] // len(runs))
        t1 = time.time()
        files, stats, all_events = [], [], {}
        with ThreadPoolExecutor(max_workers=cfg["jobs"]) as pool:
            for r in runs:
                evs, st = do_run(r, d, cfg, seed, pool)
                st["source"] = lists[r.b][0] if r.b < len(lists) else "bulk"
                stats.append(st)
                all_events[r.b] = evs
                tf = os.path.join(d, f"trace.{r.b}")
                with open(tf, "w") as f:
                    for e in evs:
                        f.write(json.dumps(e) + "\n")
                files.append(tf)
                if os.environ.get("DUR_KEEP"):     # debugging aid: keep the trace files
                    os.makedirs(os.environ["DUR_KEEP"], exist_ok=True)
                    shutil.copy(tf, os.environ["DUR_KEEP"])
        t2 = time.time()
        with ThreadPoolExecutor(max_workers=8) as ex:
            outs = list(ex.map(validate, files))
        t3 = time.time()
        res["violations"] = {}
        res["advisories"] = []
        states = 0
        replays = os.path.join(os.path.dirname(SPEC), "replays")
        for r, (viols, verdict, dist) in zip(runs, outs):
            states += dist
            nimg = sum(1 for e in all_events[r.b] if e["e"] == "image")
            if verdict.get("images") != nimg:
                raise ToolError(f"run {r.b}: TLC judged {verdict.get('images')} of {nimg} images")
            # images built under the stricter file-system contract (durimg.py) never decide
            evs = all_events[r.b]
            adv = [v for v in viols if evs[v["l"] - 1].get("variant", "").startswith("pl-strict")]
            viols = [v for v in viols if v not in adv]
            for v in adv:
                e = evs[v["l"] - 1]
                res.setdefault("advisories", []).append(
                    {"b": r.b, "what": v["e"], "note": e.get("note", ""), "crash_point": e.get("k"),
                     "source": stats[runs.index(r)]["source"]})
            if not viols:
                continue
            os.makedirs(replays, exist_ok=True)
            path = os.path.join(replays, f"dur-b{r.b}.json")
            bad_lines = sorted({v["l"] for v in viols})
            json.dump({"group": "dur", "seed": seed, "b": r.b, "bulk": r.bulk, "abstract_ops": r.aops,
                       "concrete_ops": r.cops if not r.bulk else "(bulk: regenerate from abstract_ops)",
                       "how": "python3 tools/durreplay.py <this file>",
                       "violations": viols,
                       "images": [dict(evs[l - 1], line=l) for l in bad_lines[:20]]}, open(path, "w"))
            for v in viols:
                for p_ in v["props"]:
                    res["violations"].setdefault(p_, []).append({"b": r.b, "event": v["l"], "kind": v["e"], "replay": path})
        res.update({
            "behaviours": len(runs), "events": sum(len(v) for v in all_events.values()),
            "images": sum(s["images"] for s in stats), "kill_images": sum(s["kill_images"] for s in stats),
            "power_images": sum(s["power_images"] for s in stats), "runs": stats, "trace_states": states,
            "known": [], "samples": [{"b": 0, "ops": CANONICAL}] + ([{"b": 1, "ops": lists[1][1]}] if len(lists) > 1 else []),
            "t_images": round(t2 - t1, 1), "t_validate": round(t3 - t2, 1),
        })
    finally:
        shutil.rmtree(d, ignore_errors=True)
    res["wall_s"] = round(time.time() - t0, 1)
    log(f"dur group: {res['behaviours']} runs, {res['images']} images ({res['kill_images']} kill, "
        f"{res['power_images']} power-loss), violations {sorted(res['violations'])}, "
        f"{len(res['advisories'])} advisories, {res['wall_s']}s")
    return res

"""HTTP group: the store behaviours of the store group executed through the real front end
(xs::api::serve on the unix socket, raw HTTP/1.1 requests, NDJSON and SSE renderings) plus the
malformed request classes of DESIGN Appendix D; judged by the same observer (TraceStore) with the
HTTP status of every response.  Decides C13 and the HTTP parts of C06 C10 C12 C20."""
from groups import store

PROPS = ["C13", "C06", "C10", "C12", "C20", "C01", "C05", "C07"]


def run(tier, seed):
    return store.run(tier, seed, regress=True, http=True)

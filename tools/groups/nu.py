"""nu group: the store behaviours executed by nu scripts through the commands xs gives to handler, command and generator
scripts (src/nu/commands: .append .cat .head .get .remove .cas; src/nu/util.rs: frames and metas crossing into nu and
back, pipeline content into CAS), one engine per context wired as src/commands/serve.rs does. Judged by the same observer
(TraceStore) plus the differential front-end rule. Decides the script-command parts of C06 C10 C12."""
from groups import store

PROPS = ["C06", "C10", "C12"]


def run(tier, seed):
    return store.run(tier, seed, regress=True, nu=True)

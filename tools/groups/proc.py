"""Processors group: XsHandlers / XsCommands / XsGenerators (code layer, TLC) + TraceProc (observer)
bound to the real serve loops (xs::handlers::serve, xs::commands::serve, xs::generators::serve)
running inside `xsv worker --serve`.  The stream is the trace.  Decides C14 C15 C16 C17 C18 C19 and
the processor part of C06 (handler dispatch / output context, .cat/.head inside scripts)."""
import copy
import glob
import json
import os
import random
import shutil
import time
from concurrent.futures import ThreadPoolExecutor

from common import (SPEC, XSV, ToolError, log, model_check, scratch, sh, tlc)
from groups import proc_catalogue as cat
from groups import proc_models as models

PROPS = ["C14", "C15", "C16", "C17", "C18", "C19", "C06"]

TIERS = {
    "quick": dict(rnd_h=140, rnd_c=50, rnd_g=8, sim=60, jobs=10, chunk=40, long_ms=20000, everywhere=0),
    "thorough": dict(rnd_h=6000, rnd_c=2000, rnd_g=150, sim=600, jobs=12, chunk=200, long_ms=30000, everywhere=100),
}


# ------------------------------------------------------------------------------ scenarios
def mk(s, actions, nctx=2, mode="A", cfg="", extra_kinds=None, **kw):
    """number the actions, collect the kinds they use"""
    kinds = {"none": cat.ALL["h_silent"]}
    pool = dict(cat.ALL)
    pool.update(extra_kinds or {})
    n = 0
    for a in actions:
        a["i"] = n
        n += 1
        if "k" in a:
            kinds[a["k"]] = pool[a["k"]]
        for it in a.get("items", []):
            it["i"] = n
            n += 1
            if "k" in it:
                kinds[it["k"]] = pool[it["k"]]
        if mode == "B" and a["a"] not in ("restart", "sleep", "settle") and not a.get("wait"):
            a.setdefault("nowait", True)
    d = dict(s=s, mode=mode, nctx=nctx, kinds=kinds, actions=actions, cfg=cfg)
    d.update(kw)
    return d


def R(n, c, k):
    return dict(a="reg", n=n, c=c, k=k)


def U(n, c):
    return dict(a="unreg", n=n, c=c)


def T(c, t="t.x"):
    return dict(a="trig", c=c, t=t)


def RS(how="kill", quiet=True):
    return dict(a="restart", how=how, quiet=quiet)


def D(n, c, k):
    return dict(a="define", n=n, c=c, k=k)


def CL(n, c):
    return dict(a="call", n=n, c=c)


def SP(n, c, k):
    return dict(a="spawn", n=n, c=c, k=k)


def SD(n, c, v):
    return dict(a="send", n=n, c=c, v=v)


def BURST(items, threads=3):
    return dict(a="burst", items=items, threads=threads)


def regress_scenarios(full):
    """hand-written: every script kind, every rule of the observer, every known finding once"""
    S = []
    def add(acts, **kw):
        S.append((acts, kw))

    # C14: echo, both contexts, unregister
    add([R("h1", 0, "h_echo"), T(0), T(1), T(0, "t.y"), U("h1", 0), T(0, "t.z")])
    # C14: resume head over a history that contains triggers and, after re-registration, its predecessor's output
    add([T(0), T(1), R("h1", 0, "h_echo_head"), T(0, "t.y"), R("h1", 0, "h_echo_head"), T(0)])
    # C14: react to every frame, next to a second handler whose outputs it sees; cannot feed itself
    add([T(0), R("ha", 0, "h_all_head"), T(0, "t.y"), R("h2", 0, "h_str"), T(0), T(1), U("h2", 0), T(0)])
    add([R("ha", 1, "h_all"), T(1), R("h2", 1, "h_a2"), T(1), T(0)])
    # C14: resume after an id
    add([T(0, "t.a"), T(0, "t.b"), T(0, "t.c"), dict(a="reg", n="h1", c=0, k="h_after_1"), T(0, "t.d")],
        extra_kinds={"h_after_1": cat.handler_after(1)})
    # C12: meta values (integers beyond 2^53, i64 bounds, floats, escapes, nesting) through nu and back
    TM = lambda c, t="t.m": dict(a="trig", c=c, t=t, meta=cat.META_M)
    add([R("h1", 0, "h_meta"), TM(0), TM(0, "t.n"), TM(1)], extra_kinds={"h_meta": cat.handler_meta()})
    # C10: a byte stream arriving in pieces at the unbuffered .append of a command
    add([D("c1", 0, "c_bytes"), CL("c1", 0), CL("c1", 0)], extra_kinds={"c_bytes": cat.command_bytes()})
    # C15: return_options.ttl without a suffix; the closure returning one of its own earlier output frames
    add([R("h1", 0, "h_ttl"), R("h2", 1, "h_own"), T(0), T(1), T(1, "t.y"), T(0, "t.y"), T(1, "t.z")])
    # C14: stamp wins over colliding user meta even for a handler that sees every frame (no self-feeding)
    add([R("ha", 0, "h_all_collide"), T(0), T(0, "t.y"), T(1)])
    # C16: a handler that unregisters itself from inside its closure is stopped, once
    add([R("hq", 0, "h_selfstop"), T(0), T(0, "t.y"), T(0, "t.z")])
    # C16: names that are prefixes of one another do not stop each other
    add([R("h1", 0, "h_echo"), R("h1x", 0, "h_str"), R("h", 0, "h_int"), T(0), U("h1x", 0), T(0, "t.y"), U("h", 0), T(0, "t.z"),
         R("h1x", 0, "h_str"), T(0), R("h", 0, "h_int"), T(0)])
    # C14 mode B: burst while the closure sleeps
    add([R("h1", 0, "h_slow"), T(0, "t.slow"), BURST([T(0, "t.x"), T(0, "t.y"), T(1, "t.x"), T(0, "t.z"), T(0, "t.x"), T(0, "t.y")]),
         T(0, "t.slow"), BURST([T(0, "t.x"), U("h1", 0), T(0, "t.y")])])
    # C15: shapes
    add([R("h1", 1, "h_a3ctx"), T(1), T(1, "t.fail"), R("h2", 0, "h_fail_mid"), T(0), T(0, "t.fail"), T(0)])
    add([R("h1", 0, "h_fail_before"), R("h2", 0, "h_fail_after"), T(0), T(0, "t.fail"), T(0), R("h1", 0, "h_fail_before"), T(0)])
    add([R("h2", 0, "h_str"), R("h3", 0, "h_int"), R("h4", 0, "h_list"), R("h5", 0, "h_bool"), R("h6", 0, "h_none"),
         R("h7", 0, "h_suffix"), R("h8", 0, "h_silent"), R("h9", 1, "h_suffix_a"), T(0), T(1), T(0, "t.y")])
    # C06: .cat / .head inside the script
    add([T(0), T(1), R("h8", 1, "h_cat_head"), R("h9", 0, "h_cat"), T(0), T(1), T(0, "t.y"), T(1, "t.y")])
    # C16: invalid scripts
    add([R("h1", 0, "h_bad_parse"), R("h2", 0, "h_bad_arity0"), R("h3", 1, "h_bad_arity2"), R("h4", 0, "h_bad_norun"),
         R("h5", 1, "h_bad_resume"), R("h6", 0, "h_bad_ttl"), T(0), T(1)])
    # C16: replace, unregister, re-register, failing trigger
    add([R("h1", 0, "h_echo"), T(0), R("h1", 0, "h_a1"), T(0), U("h1", 0), T(0), R("h1", 0, "h_str"), T(0), R("h1", 1, "h_echo"), T(1), T(0)])
    # C16 known: two registrations in flight (DESIGN 6 #9b)
    add([T(0), BURST([R("h1", 0, "h_echo"), R("h1", 0, "h_echo")], threads=1), T(0), T(0, "t.y")], cfg="known-9b")
    # C17: restart; same name in two contexts (DESIGN 6 #10)
    add([R("h1", 0, "h_echo"), R("h1", 1, "h_echo"), T(0), T(1), RS("kill"), T(0), T(1)], cfg="known-10")
    # C17: unregistered / replaced / failed / invalid do not come back; head re-executes, tail does not
    add([R("h1", 0, "h_echo"), R("h2", 0, "h_echo"), R("h3", 1, "h_fail_before"), R("h4", 1, "h_bad_parse"), R("h5", 1, "h_echo_head"),
         T(0), T(1), U("h1", 0), R("h2", 0, "h_a1"), T(1, "t.fail"), RS("exit"), T(0), T(1), RS("kill"), T(0, "t.y"), T(1, "t.y")])
    # C19
    add([D("c1", 0, "c_two"), CL("c1", 0), D("c1", 0, "c_three"), CL("c1", 0), D("c2", 0, "c_bad_parse"), CL("c2", 0),
         D("c3", 0, "c_err"), CL("c3", 0), D("c4", 1, "c_app"), CL("c4", 1), D("c5", 1, "c_suffix"), CL("c5", 1),
         D("c6", 1, "c_zero"), CL("c6", 1), D("c7", 1, "c_cat"), CL("c7", 1), D("c8", 1, "c_one"), CL("c8", 1),
         D("c1", 0, "c_bad_norun"), CL("c1", 0), RS("kill"), CL("c1", 0), CL("c3", 0), CL("c9", 0)])
    add([D("c1", 0, "c_slow"), BURST([CL("c1", 0), CL("c1", 0), CL("c1", 0)]), D("c1", 0, "c_two"), CL("c1", 0)])
    # C17 / C16: a handler whose return frames are ephemeral fails: its `.unregistered` is an ordinary stored frame (the
    # return TTL is for return frames), so the handler does not come back with the next start
    add([R("h1", 0, "h_eph_fail"), T(0), T(0, "t.fail"), RS("kill"), T(0), T(0, "t.y"), RS("exit"), T(0)])
    # (not in the random pool: a handler that reacts to every frame is also shown ephemeral frames, and the stream
    # cannot name such a trigger)
    # C17: the server dies between a replacing .register and the replaced instance's .unregistered (the old instance is
    # busy inside its closure): exactly the replacing registration comes back (seeded change C17-b, whose detection
    # otherwise depends on where a random restart happens to fall)
    add([R("h1", 0, "h_slow"), T(0), dict(T(0, "t.slow"), nowait=True), dict(R("h1", 0, "h_echo"), nowait=True),
         RS("kill", quiet=False), T(0), T(0, "t.y")])
    # C15 / C06: an explicit append with an ephemeral TTL is a handler output like any other: stamped, in the handler's
    # context, part of the invocation's group (seen through the server-side follower, it is never in the stream)
    add([R("h1", 1, "h_eph_app"), T(1), T(1, "t.y"), T(0), R("h2", 0, "h_eph_app"), T(0), U("h1", 1), T(1)])
    # C15: appends made inside the lazy stream the closure returns belong to the invocation that returned it
    add([R("h1", 0, "h_lazy"), T(0), T(0, "t.y"), T(1), U("h1", 0), T(0)])
    # C06: the same script text defined / registered in two contexts (and under two names): what its `.cat` / `.head` see is
    # the context of the definition that answers, not of whichever definition was prepared first (seeded change C06-d)
    add([T(0), T(1, "t.y"), D("c7", 0, "c_cat"), D("c7", 1, "c_cat"), CL("c7", 1), CL("c7", 0), D("c8", 1, "c_cat"), CL("c8", 1),
         T(1), CL("c8", 1), RS("kill"), CL("c7", 1), CL("c7", 0)])
    add([T(0), T(1, "t.y"), R("h1", 0, "h_cat"), R("h1", 1, "h_cat"), T(1), T(0), R("h2", 1, "h_cat"), T(1, "t.y"), RS("kill"), T(1), T(0)])
    # C19 / C15: definitions that bring their own nu module; restart restores them with it
    add([D("c1", 0, "c_mod"), CL("c1", 0), D("c1", 1, "c_mod"), CL("c1", 1), R("h1", 0, "h_mod"), T(0), RS("kill"), CL("c1", 0), T(0)],
        extra_kinds={"c_mod": cat.command_module(), "h_mod": cat.handler_module()})
    # C19: a return TTL without a suffix; a module whose function appends; C15: a return value without a JSON form
    add([D("c1", 0, "c_ttl"), CL("c1", 0), D("c2", 1, "c_amod"), CL("c2", 1), CL("c2", 1), R("h1", 0, "h_dur"), T(0), T(0, "t.y"),
         RS("kill"), CL("c2", 1), CL("c1", 0), T(0)], extra_kinds={"c_amod": cat.command_module_append()})
    # C19: overlapping calls of a command whose output stream appends while it is drained
    add([D("c1", 0, "c_lazy"), CL("c1", 0), BURST([CL("c1", 0), CL("c1", 0), CL("c1", 0)]), D("c2", 1, "c_lazy"),
         BURST([CL("c2", 1), CL("c1", 0), CL("c2", 1)])])
    # C19 known: table keyed by name across contexts
    add([D("c1", 0, "c_two"), CL("c1", 1), D("c1", 1, "c_three"), CL("c1", 0), D("c7", 1, "c_cat"), T(0), CL("c7", 0)], cfg="known-cmd-name")
    # C18
    # (three lifecycles: a refused duplicate spawn must not take over at a later respawn either)
    add([SP("g1", 0, "g_stream3"), SP("g2", 1, "g_single"), SP("g3", 1, "g_empty"), SP("g1", 0, "g_stream1"), SP("g5", 1, "g_nocontent")],
        gen_cycles=3)
    # C18: a duplicate spawn arrives while the first generator cycles: it is refused, and the respawns that follow
    # (also the one scheduled after the refusal) still belong to the accepted spawn
    add([dict(SP("g1", 0, "g_stream1"), nowait=True), dict(SP("g1", 0, "g_stream3"), nowait=True), dict(a="sleep", ms=2600)],
        gen_cycles=3)
    add([SP("g1", 0, "g_bad_parse"), SP("g2", 1, "g_ints"), SP("g3", 1, "g_listvalue")], cfg="known-12")
    # C14: pulse markers of its own subscription; C19: per-call isolation
    add([R("h1", 0, "h_pulse"), T(0), dict(a="sleep", ms=200), T(0, "t.y"), RS("kill"), dict(a="sleep", ms=200), T(0)])
    add([D("c1", 0, "c_env"), CL("c1", 0), CL("c1", 0), BURST([CL("c1", 0), CL("c1", 0)]), RS("exit"), CL("c1", 0)])
    # C16 known #9 (announce before subscribe): deterministic only with the gates of docs/proc-hooks.patch,
    # an ordinary scenario otherwise
    add([dict(a="gates", prefixes=["hsub."]), R("h1", 0, "h_echo"), dict(T(0, "t.x"), nowait=True), dict(a="step", actor="hsub.h1"),
         dict(a="settle"), T(0, "t.y")], cfg="known-9-gated")
    # C17 known (found by TLC on XsHandlers): .unregister unanswered when the server dies
    add([R("h1", 0, "h_slow"), dict(T(0, "t.slow"), nowait=True), dict(U("h1", 0), nowait=True), RS("kill", quiet=False),
         dict(a="settle"), T(0, "t.p"), T(1, "t.p")], cfg="known-unreg-lost")
    # C17 known (found by TLC on XsGenerators): a .spawn.error for an older spawn hides the accepted one
    add([BURST([SP("g1", 0, "g_nocontent"), SP("g1", 0, "g_nocontent"), SP("g1", 0, "g_nocontent"), SP("g1", 0, "g_stream1")], threads=1),
         RS("kill"), dict(a="sleep", ms=300)], cfg="known-gen-shadow")
    # C18 duplex; known: a .send in another context feeds the instance
    add([SP("g1", 1, "g_duplex"), SD("g1", 1, "s1\n"), SD("g1", 1, "s2\n"), RS("kill"), SD("g1", 1, "s3\n")])
    add([SP("g1", 1, "g_duplex"), SD("g1", 1, "s1\n"), SD("g1", 0, "s2\n"), SD("g1", 1, "s3\n")], cfg="known-duplex-ctx")
    out = []
    for i, x in enumerate(S):
        acts, kw = x
        out.append(mk(900001 + i, acts, **kw))
    return out


H_KINDS_T = ["h_echo", "h_echo", "h_echo_head", "h_lazy", "h_dur", "h_slow", "h_pulse", "h_a1", "h_a2", "h_a3ctx", "h_str", "h_int", "h_list", "h_bool", "h_none",
             "h_silent", "h_suffix", "h_ttl", "h_suffix_a", "h_fail_before", "h_fail_mid", "h_fail_after", "h_cat", "h_cat_head"]
H_KINDS_BAD = ["h_bad_parse", "h_bad_arity0", "h_bad_arity2", "h_bad_norun", "h_bad_resume", "h_bad_ttl"]
TOPICS = ["t.x", "t.x", "t.y", "t.z", "t.fail", "t.slow"]


def random_handler_scenario(rng, s, long_ms):
    mode = rng.choice(["A", "A", "B"])
    names = ["h1", "h2", "h3"][:rng.choice([1, 2, 2, 3])]
    acts, extra = [], {}
    all_used = set()      # contexts that have (had) a react-all handler: never a second one (they would feed each other)
    n = rng.randint(4, 10)
    restarts = 0
    pos = 0

    def one():
        nonlocal restarts
        r = rng.random()
        c = rng.choice([0, 0, 1])
        if r < 0.30:
            nm = rng.choice(names)
            q = rng.random()
            if q < 0.08 and c not in all_used:
                all_used.add(c)
                return R("ha", c, rng.choice(["h_all", "h_all_head"]))
            if q < 0.18:
                return R(nm, c, rng.choice(H_KINDS_BAD))
            if q < 0.24 and acts:
                # resume after the frame of an earlier single append action
                cand = [a["_n"] for a in acts if a["a"] in ("trig", "reg", "unreg")]
                if cand:
                    idx = rng.choice(cand)
                    k = f"h_after_{idx}"
                    extra[k] = cat.handler_after(idx)
                    return R(nm, c, k)
            # a kind without any output gives no evidence of a late subscription (known #9): mode A only
            return R(nm, c, rng.choice([x for x in H_KINDS_T if mode == "A" or x != "h_silent"]))
        if r < 0.40:
            return U(rng.choice(names), c)
        if r < 0.47 and restarts < 1:
            restarts += 1
            return RS(rng.choice(["kill", "exit"]), quiet=rng.random() < 0.8)
        return T(c, rng.choice(TOPICS))

    for _ in range(n):
        if mode == "B" and rng.random() < 0.35:
            items = [x for x in (one() for _ in range(rng.randint(2, 6))) if x["a"] != "restart"]
            for it in items:
                it["_n"] = -1
            a = BURST(items, threads=rng.choice([1, 2, 3, 4]))
        else:
            a = one()
        a["_n"] = pos
        pos += 1 + len(a.get("items", []))
        acts.append(a)
    # probes: one trigger per context at the end (after a restart they show who is active)
    acts += [dict(a="settle"), dict(T(0, "t.p"), wait=True), dict(T(1, "t.p"), wait=True)]
    for a in acts:
        a.pop("_n", None)
        for it in a.get("items", []):
            it.pop("_n", None)
    return mk(s, acts, mode=mode, cfg="random-h", extra_kinds=extra, long_ms=long_ms, seed=rng.randrange(1 << 30))


C_KINDS = ["c_two", "c_two", "c_lazy", "c_ttl", "c_env", "c_zero", "c_one", "c_three", "c_app", "c_err", "c_suffix", "c_slow", "c_cat", "c_bad_parse", "c_bad_norun"]


def random_command_scenario(rng, s, long_ms):
    mode = rng.choice(["A", "B"])
    names = ["c1", "c2"]
    acts = []
    restarts = 0
    # one context per name unless the known name-keyed table is the point
    cross = rng.random() < 0.25
    home = {nm: rng.choice([0, 1]) for nm in names}

    def one():
        nonlocal restarts
        nm = rng.choice(names)
        c = rng.choice([0, 1]) if cross else home[nm]
        r = rng.random()
        if r < 0.35:
            return D(nm, c, rng.choice(C_KINDS))
        if r < 0.42 and restarts < 1:
            restarts += 1
            return RS(rng.choice(["kill", "exit"]), quiet=rng.random() < 0.8)
        return CL(nm, c)

    for _ in range(rng.randint(4, 9)):
        if mode == "B" and rng.random() < 0.4:
            items = [x for x in (one() for _ in range(rng.randint(2, 5))) if x["a"] != "restart"]
            acts.append(BURST(items, threads=rng.choice([1, 2, 3])))
        else:
            acts.append(one())
    acts += [dict(a="settle"), dict(CL("c1", home["c1"]), wait=True), dict(CL("c2", home["c2"]), wait=True)]
    return mk(s, acts, mode=mode, cfg="random-c", long_ms=long_ms, seed=rng.randrange(1 << 30))


G_KINDS = ["g_stream3", "g_stream1", "g_stream0", "g_single", "g_empty", "g_bad_parse", "g_ints", "g_listvalue", "g_nocontent"]


def random_generator_scenario(rng, s, long_ms):
    names = ["g1", "g2"]
    acts = []
    for _ in range(rng.randint(2, 4)):
        acts.append(SP(rng.choice(names), rng.choice([0, 1]), rng.choice(G_KINDS)))
    if rng.random() < 0.4:
        acts.append(RS("kill"))
    return mk(s, acts, mode="A", cfg="random-g", long_ms=long_ms, gen_cycles=rng.choice([1, 1, 2]), seed=rng.randrange(1 << 30))


def restart_everywhere(acts, rng):
    """C17: the same client history with a restart (kill or exit, at a quiet point or in mid-flight)
    inserted at every position"""
    base = [a for a in acts if a["a"] not in ("restart", "settle") and not a.get("wait")]
    tail = [a for a in acts if a["a"] == "settle" or a.get("wait")]
    out = []
    for p in range(len(base) + 1):
        r = RS(rng.choice(["kill", "kill", "exit"]), quiet=rng.random() < 0.6)
        out.append(copy.deepcopy(base[:p]) + [r] + copy.deepcopy(base[p:]) + copy.deepcopy(tail))
    return out


# ------------------------------------------------------------------------------ validation
def validate(trace_file):
    out, gen, dist, rc = tlc("TraceProc.tla", "TraceProc.cfg", workers=1, env={"TRACE": trace_file}, timeout=1800, xmx="3g")
    viols, knowns, verdict, toolerr = [], [], None, 0
    for line in out.splitlines():
        if line.startswith('"VIOL '):
            viols.append(json.loads(json.loads(line)[5:]))
        elif line.startswith('"KNOWN '):
            knowns.append(json.loads(json.loads(line)[6:]))
        elif line.startswith('"VERDICT '):
            verdict = json.loads(json.loads(line)[8:])
        elif line.startswith('"TOOLERR '):
            toolerr += 1
    if verdict is None or "No error has been found" not in out:
        raise ToolError(f"trace validation did not finish for {trace_file}:\n" + out[-4000:])
    return viols, knowns, verdict, dist, toolerr


def scenario_events(files, sid):
    evs, on = [], False
    for f in files:
        for l in open(f):
            e = json.loads(l)
            if e.get("e") == "reset":
                on = e["s"] == sid
            if on:
                evs.append(e)
        if evs:
            break
    return evs


def run_scenarios(scs, d, jobs, chunk, tag="trace"):
    inp = os.path.join(d, f"{tag}.in.ndjson")
    with open(inp, "w") as f:
        for x in scs:
            f.write(json.dumps(x) + "\n")
    t1 = time.time()
    p = sh([os.environ.get("XSV_BIN", XSV), "proc-run", "--in", inp, "--out", os.path.join(d, tag), "--jobs", str(jobs), "--chunk", str(chunk)],
           timeout=3000, env={"XSV_SCRATCH": d})
    stats = json.loads(p.stdout.strip().splitlines()[-1])
    t2 = time.time()
    files = sorted(glob.glob(os.path.join(d, f"{tag}.[0-9]*")), key=lambda x: int(x.rsplit(".", 1)[1]))
    with ThreadPoolExecutor(max_workers=8) as ex:
        outs = list(ex.map(validate, files))
    t3 = time.time()
    return files, outs, stats, round(t2 - t1, 1), round(t3 - t2, 1)


def collect(res, scs, files, outs, replay_dir):
    sc_by_s = {x["s"]: x for x in scs}
    known, states, toolerrs, nq, nfr = set(res.get("known", [])), 0, 0, 0, 0
    os.makedirs(replay_dir, exist_ok=True)
    for fidx, (viols, knowns, verdict, dist, te) in enumerate(outs):
        states += dist
        toolerrs += te
        nq += verdict.get("scenarios", 0)
        nfr += verdict.get("frames", 0)
        for kn in knowns:
            known.update(kn["keys"])
            for key in kn["keys"]:
                res.setdefault("known_where", {}).setdefault(key, [])
                if len(res["known_where"][key]) < 5:
                    res["known_where"][key].append(kn["b"])
                # keep the first occurrences replayable: check.py turns a key that known-findings.jsonl lists as
                # *fixed* back into a violation
                rp = os.path.join(replay_dir, f"proc-known-{key}-s{kn['b']}.json")
                if len(res.setdefault("known_replays", {}).setdefault(key, [])) < 2:
                    json.dump({"group": "proc", "scenario": sc_by_s.get(kn["b"]), "violations": [{"known_key": key}],
                               "trace": scenario_events([files[fidx]], kn["b"])}, open(rp, "w"))
                    res["known_replays"][key].append(rp)
        by_s = {}
        for v in viols:
            by_s.setdefault(v["b"], []).append(v)
        for sid, vs in list(by_s.items())[:40]:
            # a frame that is absent only counts after the runner's generous wait
            soft = [v for v in vs if v["w"].startswith("missing") and not v["timeout"]]
            evs = None
            if soft and res.setdefault("patient_reruns", 0) >= 6:
                # (each re-run takes minutes; six are enough to establish what is wrong with a tree)
                log(f"scenario {sid}: soft verdict skipped, {res['patient_reruns']} patient re-runs done already")
                continue
            if soft:
                res["patient_reruns"] += 1
                # The observer misses a frame although the runner saw nothing owed (the two work from different rules).
                # Absence counts only after the long wait: the scenario runs once more, every wait held for the full
                # long timeout whatever the runner believes is owed, and only that run is judged.
                sc2 = dict(sc_by_s[sid], patient=True, no_shorten=True)
                d2 = scratch(f"proc-patient-{sid}")
                try:
                    f2, o2, _, _, _ = run_scenarios([sc2], d2, 1, 1, tag="patient")
                    vs = [v for (vv, _, _, _, _) in o2 for v in vv if v["b"] == sid]
                    evs = scenario_events(f2, sid)
                finally:
                    shutil.rmtree(d2, ignore_errors=True)
                log(f"scenario {sid}: observer missed a frame the runner did not wait for; patient re-run: "
                    f"{'still ' + str(sorted({v['w'] for v in vs})) if vs else 'nothing missing'}")
                if any(v["w"].startswith("missing") and not v["timeout"] for v in vs):
                    raise ToolError(f"scenario {sid}: patient re-run still reports a missing frame without the long wait")
                if not vs:
                    continue
            if evs is None:
                evs = scenario_events([files[fidx]], sid)
            path = os.path.join(replay_dir, f"proc-s{sid}.json")
            json.dump({"group": "proc", "scenario": sc_by_s.get(sid), "violations": vs, "trace": evs}, open(path, "w"))
            for v in vs:
                for p_ in v["props"]:
                    lst = res["violations"].setdefault(p_, [])
                    if len(lst) < 50:
                        lst.append({"b": sid, "event": v["x"], "kind": v["w"], "replay": path})
    res["known"] = sorted(known)
    return states, toolerrs, nq, nfr


def run(tier, seed):
    cfg = TIERS[tier]
    t0 = time.time()
    res = {"group": "proc", "tier": tier, "seed": seed, "violations": {}}
    res["mc"] = models.check(tier)
    d = scratch("proc")
    try:
        if tier == "thorough":
            res["spec_mutants"] = models.check_spec_mutants(d)
        rng = random.Random(seed * 7919 + 13)
        scs = regress_scenarios(tier == "thorough")
        nreg = len(scs)
        tl = models.generate(cfg["sim"], seed, d)
        for i, x in enumerate(tl):
            x2 = mk(500000 + i, x["actions"], mode=x.get("mode", "A"), cfg=x.get("cfg", "tlc"), extra_kinds=x.get("extra_kinds"),
                    gen_cycles=x.get("gen_cycles", 1))
            scs.append(x2)
        n_tlc = len(tl)
        for i, x in enumerate(tl[:cfg["everywhere"]]):
            for p, acts in enumerate(restart_everywhere(x["actions"], rng)):
                scs.append(mk(600000 + i * 100 + p, acts, mode=x.get("mode", "A"), cfg=x.get("cfg", "tlc") + "-restart@%d" % p,
                              extra_kinds=x.get("extra_kinds"), gen_cycles=1))
        n_everywhere = len(scs) - nreg - n_tlc
        s = 0
        for _ in range(cfg["rnd_h"]):
            s += 1
            scs.append(random_handler_scenario(rng, s, cfg["long_ms"]))
        for _ in range(cfg["rnd_c"]):
            s += 1
            scs.append(random_command_scenario(rng, s, cfg["long_ms"]))
        for _ in range(cfg["rnd_g"]):
            s += 1
            scs.append(random_generator_scenario(rng, s, cfg["long_ms"]))
        for x in scs:
            x.setdefault("long_ms", cfg["long_ms"])
        # slow scenarios first (generators wait for 1 s respawns)
        scs.sort(key=lambda x: (0 if any(a["a"] == "spawn" for a in x["actions"]) else 1))
        files, outs, stats, t_replay, t_validate = run_scenarios(scs, d, cfg["jobs"], cfg["chunk"])
        # a run whose first long timeout was followed by the owed frames after all has shortened waits
        # that cannot be trusted: run it again with uniform long waits and judge that run instead
        late = set()
        for f in files:
            for l in open(f):
                if '"late":true' in l:
                    late.add(json.loads(l)["s"])
        redo = sorted({v["b"] for o in outs for v in o[0] if v["w"].startswith("missing") and v["b"] in late})
        res["rerun_uniform_waits"] = redo
        if redo:
            by_s = {x["s"]: x for x in scs}
            outs = [([v for v in o[0] if v["b"] not in redo], [k for k in o[1] if k["b"] not in redo], o[2], o[3], o[4]) for o in outs]
            files2, outs2, _, _, _ = run_scenarios([dict(by_s[x], no_shorten=True) for x in redo], d, cfg["jobs"], cfg["chunk"], tag="redo")
            files, outs = files + files2, outs + outs2
        replay_dir = os.path.join(os.path.dirname(SPEC), "replays")
        states, toolerrs, nq, nfr = collect(res, scs, files, outs, replay_dir)
        if toolerrs > max(3, len(scs) // 50):
            raise ToolError(f"{toolerrs} scenario runs died in the harness")
        res.update({"behaviours": nq, "events": stats["events"], "frames": nfr, "from_tlc": n_tlc, "restart_everywhere": n_everywhere, "random": s, "regress": nreg,
                    "trace_states": states, "harness_died": toolerrs,
                    "samples": [{k: v for k, v in scs[0].items() if k != "kinds"}, {k: v for k, v in scs[-1].items() if k != "kinds"}],
                    "t_replay": t_replay, "t_validate": t_validate})
    finally:
        shutil.rmtree(d, ignore_errors=True)
    res["wall_s"] = round(time.time() - t0, 1)
    log(f"proc group: {res['behaviours']} scenarios, {res['frames']} frames, violations {sorted(res['violations'])}, "
        f"known {res['known']}, {res['wall_s']}s")
    return res

"""Script catalogue of the processors group: every script is a deterministic function of
(frame, $env), so the content of every frame a processor emits is predictable.  One entry =
one abstract ScriptKind of the models (spec/XsHandlers.tla, XsCommands.tla, XsGenerators.tla):
the nu source that is appended as CAS content of the client frame, plus the *spec fields* the
observer (spec/TraceProc.tla) reads from the scenario header.  The runner removes `script`
before the header goes into the trace; all kinds carry the same set of spec fields.
"""

TTL_T = "time:600000"     # a time TTL that never expires under the virtual clock of a run


def _spec(**kw):
    d = dict(fam="h", valid=True, react="t", resume="tail", group=0, fail_on="", outs=[], counter=True,
             pulse=0, maxpulse=0, cat=False, slow_on="", after=0,
             # commands
             recv=[], terminal="complete", unstamped_error=False, csuffix=".recv", cttl="forever", cappends=[],
             # (interleave: the explicit appends happen while the output stream is drained: append, value, append, value, ...)
             interleave=False,
             # generators
             duplex=False, panics=False, nocontent=False, values=[], per_send=1, refused=False)
    d.update(kw)
    return d


def _out(topic, k, ttl="forever", um=-1, stored=True):
    name, _, suf = topic.partition(".")
    return dict(topic=topic, name=name, suf=suf, k=k, ttl=ttl, um=um, stored=stored)


# ------------------------------------------------------------------------------ handlers
def handler(name_of_ret="{name}", react="t", resume="tail", appends=(), ret="rec", suffix=None, ttl=None,
            fail=None, pulse=0, slow=False, cat=False, lazy=False):
    """appends: list of dicts {topic, meta: None|'user'|'collide', ttl: None|str, context: None|'other'|'zero'}"""
    cfg = []
    if resume != "tail":
        cfg.append('resume_from: "%s"' % ("{{id:%s}}" % resume.split(":")[1] if resume.startswith("after:") else resume))
    if pulse:
        cfg.append(f"pulse: {pulse}")
    ro = []
    if suffix:
        ro.append(f'suffix: "{suffix}"')
    if ttl:
        ro.append(f'ttl: "{ttl}"')
    if ro:
        cfg.append("return_options: {" + ", ".join(ro) + "}")
    body = []
    if react == "t" and pulse:
        body.append('if $frame.topic == "xs.pulse" { if $env.p >= 2 { return }; $env.p = $env.p + 1 } else if not ($frame.topic | str starts-with "t.") { return }')
    elif react == "t":
        body.append('if not ($frame.topic | str starts-with "t.") { return }')
    body.append("$env.n = $env.n + 1")
    if slow:
        body.append('if $frame.topic == "t.slow" { sleep 120ms }')
    failstmt = 'if $frame.topic == "t.fail" { error make {msg: "boom"} }'
    if fail == "before":
        body.append(failstmt)
    outs = []
    lazy_stmts = []
    rec = lambda k: '{k: "%s", n: $env.n, tid: $frame.id, t: $frame.topic}' % k
    for i, a in enumerate(appends):
        k = f"a{i + 1}"
        flags = ""
        um = -1
        if a.get("meta") == "user":
            flags += " --meta {u: %d}" % (i + 1)
            um = i + 1
        elif a.get("meta") == "collide":
            flags += ' --meta {u: %d, handler_id: "spoof", frame_id: "spoof"}' % (i + 1)
            um = i + 1
        if a.get("ttl"):
            flags += f" --ttl {a['ttl']}"
        if a.get("context") == "other":
            flags += " --context {{ctx:1}}"
        elif a.get("context") == "zero":
            flags += " --context {{ctx:0}}"
        if lazy:
            lazy_stmts.append(f"{rec(k)} | .append {a['topic']}{flags}")
        else:
            body.append(f"{rec(k)} | .append {a['topic']}{flags}")
        outs.append(_out(a["topic"], k, ttl=a.get("ttl") or "forever", um=um, stored=a.get("ttl") != "ephemeral"))
        if fail == "mid" and i == 0:
            body.append(failstmt)
    if fail == "after" or (fail == "mid" and not appends):
        body.append(failstmt)
    extra = ""
    if cat:
        extra = ", x: (.cat | get id), hx: (.head $frame.topic | get id)"
    retexpr = {
        "rec": '{k: "ret", n: $env.n, tid: $frame.id, t: $frame.topic%s}' % extra,
        "str": '$"ret|($env.n)|($frame.id)|($frame.topic)"',
        "int": "$env.n",
        "list": '["ret" $env.n $frame.id $frame.topic]',
        "bool": "true",
        "none": "null",
        # a value without a JSON form (a duration): still a return value - the frame is published, its content is `null`
        "dur": "3sec",
    }[ret]
    if lazy:
        # the appends happen inside the stream the closure returns: they run when the value is collected, not before
        assert ret == "list"
        retexpr = retexpr + ' | each {|x| if $x == "ret" { ' + "; ".join(lazy_stmts) + " }; $x }"
    body.append(retexpr)
    if ret != "none":
        rk = {"rec": "ret", "str": "ret", "list": "ret", "int": "int", "bool": "bool:true", "dur": "null"}[ret]
        o = _out(name_of_ret + (suffix or ".out"), rk, ttl=ttl or "forever", stored=ttl != "ephemeral")
        o["name"], o["suf"] = "", (suffix or ".out")[1:]
        o["ret"] = True
        outs.append(o)
    for o in outs:
        o.setdefault("ret", False)
    script = "$env.n = 0\n$env.p = 0\n{\n" + "".join(f"  {c}\n" for c in cfg) + "  run: {|frame|\n" + "".join(
        f"    {b}\n" for b in body) + "  }\n}\n"
    return dict(_spec(fam="h", react=react, resume=resume, group=sum(1 for o in outs if o["stored"]),
                      fail_on="t.fail" if fail else "", outs=outs, counter=ret not in ("bool", "dur"), pulse=pulse,
                      maxpulse=2 if pulse else 0,
                      cat=cat, slow_on="t.slow" if slow else ""), script=script)


def invalid_handler(why):
    src = {
        "parse": "{run: {|frame| ( }",
        "arity0": '{run: {|| "x"}}',
        "arity2": '{run: {|a, b| "x"}}',
        "norun": '{resume_from: "tail"}',
        "badresume": '{resume_from: "bogus", run: {|frame| "x"}}',
        "badttl": '{return_options: {ttl: "nope"}, run: {|frame| "x"}}',
        "notrecord": '"just a string"',
    }[why]
    return dict(_spec(fam="h", valid=False), script=src)


A1 = dict(topic="o.a1")
A2U = dict(topic="o.a2", meta="user", ttl=TTL_T)
A2C = dict(topic="o.a2", meta="collide", context="other")
A3Z = dict(topic="o.a3", context="zero", meta="user")


def handler_own():
    """C15: the closure returns one of the handler's own earlier output frames (`.head` of its own topic):
    that is not a new return value, but the explicit appends of the invocation are still emitted"""
    d = handler(ret="none", appends=[A1])
    d["script"] = d["script"].replace("    null\n", "    .head o.a1\n")
    assert ".head o.a1" in d["script"]
    return d



HANDLERS = {
    # C14: echo with a counter in $env, the three resume modes
    "h_echo": handler(),
    "h_echo_head": handler(resume="head"),
    "h_all": handler(react="all"),
    "h_all_head": handler(react="all", resume="head"),
    "h_slow": handler(slow=True),
    "h_pulse": handler(pulse=40),
    # C15: shapes
    "h_a1": handler(appends=[A1]),
    "h_a2": handler(appends=[A1, A2U]),
    "h_a3ctx": handler(appends=[A1, A2C, A3Z]),
    "h_str": handler(ret="str"),
    "h_int": handler(ret="int"),
    "h_list": handler(ret="list"),
    "h_bool": handler(ret="bool"),
    "h_none": handler(ret="none", appends=[A1]),
    "h_silent": handler(ret="none"),
    "h_suffix": handler(suffix=".res", ttl=TTL_T),
    "h_ttl": handler(ttl=TTL_T),
    # C14: reacts to every frame and appends with a meta that collides with the stamp keys: if the stamp did not
    # win, its own output would look foreign and feed it for ever
    "h_all_collide": handler(react="all", appends=[dict(topic="o.a2", meta="collide")]),
    # C16: a handler (always registered as "hq") that unregisters itself from inside its closure
    "h_selfstop": handler(appends=[dict(topic="hq.unregister")]),
    "h_own": handler_own(),
    "h_suffix_a": handler(suffix=".res", appends=[A2U]),
    "h_fail_before": handler(fail="before", appends=[A1]),
    "h_fail_mid": handler(fail="mid", appends=[A1, A2U]),
    "h_fail_after": handler(fail="after", appends=[A1, A2U]),
    # C06: script-visible isolation
    "h_dur": handler(appends=[A1], ret="dur"),
    "h_eph_app": handler(appends=[dict(topic="o.a1", ttl="ephemeral"), dict(topic="o.a2")]),
    "h_eph_fail": handler(ttl="ephemeral", fail="before", appends=[A1]),
    "h_lazy": handler(appends=[A1, dict(topic="o.a2")], ret="list", lazy=True),
    "h_cat": handler(cat=True),
    "h_cat_head": handler(cat=True, resume="head"),
    # invalid scripts
    "h_bad_parse": invalid_handler("parse"),
    "h_bad_arity0": invalid_handler("arity0"),
    "h_bad_arity2": invalid_handler("arity2"),
    "h_bad_norun": invalid_handler("norun"),
    "h_bad_resume": invalid_handler("badresume"),
    "h_bad_ttl": invalid_handler("badttl"),
}


# C12: numbers and strings of a frame's meta survive the trip into nu and back (json_to_value / value_to_json)
META_M = {"big": 9007199254740993, "max": 9223372036854775807, "min": -9223372036854775808, "fl": 2.5,
          "neg": -1, "s": "q\"\\ é", "nested": {"a": [1, 2, {"b": None}]}, "t": True}


def canon(v):
    import json
    return json.dumps(v, sort_keys=True, separators=(",", ":"), ensure_ascii=False)


def handler_meta():
    script = ("$env.n = 0\n{\n  run: {|frame|\n    if not ($frame.topic | str starts-with \"t.\") { return }\n"
              "    $env.n = $env.n + 1\n"
              "    {k: \"ret\", n: $env.n, tid: $frame.id, t: $frame.topic, z: $frame.meta}\n  }\n}\n")
    o = _out("{name}.out", "ret|" + canon(META_M))
    o["name"], o["suf"], o["ret"] = "", "out", True
    return dict(_spec(fam="h", outs=[o], group=1), script=script)


def command_bytes():
    """C10: a byte stream that reaches the unbuffered `.append` in several pieces is stored whole"""
    script = ("{\n  run: {|frame|\n"
              "    [\"alpha\" \"beta\" \"gamma\"] | each {|x| $x} | to text | .append p.a1\n"
              "    {k: \"v.r1\", tid: $frame.id, t: $frame.topic}\n  }\n}\n")
    return dict(_spec(fam="c", recv=["v.r1"], cappends=[_out("p.a1", "alpha\nbeta\ngamma")]), script=script)


def handler_after(action_index, **kw):
    return handler(resume=f"after:{action_index}", **kw)


# ------------------------------------------------------------------------------ commands
def command(values=("r1", "r2"), appends=0, err=None, suffix=None, ttl=None, slow=False, tag="v", cat=False, env=False, lazy=False):
    cfg = []
    ro = []
    if suffix:
        ro.append(f'suffix: "{suffix}"')
    if ttl:
        ro.append(f'ttl: "{ttl}"')
    if ro:
        cfg.append("return_options: {" + ", ".join(ro) + "}")
    body = []
    if slow:
        body.append("sleep 120ms")
    capp = []
    for i in range(appends):
        body.append('{k: "%s.a%d", tid: $frame.id, t: $frame.topic} | .append p.a%d' % (tag, i + 1, i + 1))
        capp.append(_out(f"p.a{i + 1}", f"{tag}.a{i + 1}"))
    if err == "runtime":
        body.append('error make {msg: "cmd boom"}')
    extra = ", x: (.cat | get id)" if cat else ""
    if env:
        # per-call isolation: state set by one call must not be visible to the next
        body.append("$env.q = ($env.q? | default 0) + 1")
        extra += ", n: $env.q"
    vals = " ".join('{k: "%s.%s", tid: $frame.id, t: $frame.topic%s}' % (tag, v, extra) for v in values)
    if lazy:
        # a stream that is produced while it is drained, with an explicit append per value (overlapping calls keep
        # their stamps apart although their streams are drained at the same time)
        names = " ".join(values)
        body.append('[%s] | each {|v| sleep 40ms; {k: $"%s.a.($v)", tid: $frame.id, t: $frame.topic} | .append p.a1; '
                    '{k: $"%s.($v)", tid: $frame.id, t: $frame.topic} }' % (names, tag, tag))
        capp = [_out("p.a1", f"{tag}.a.{v}") for v in values]
    else:
        body.append(f"[{vals}]" if len(values) != 1 else vals)
    script = "{\n" + "".join(f"  {c}\n" for c in cfg) + "  run: {|frame|\n" + "".join(f"    {b}\n" for b in body) + "  }\n}\n"
    return dict(_spec(fam="c", recv=[f"{tag}.{v}" for v in values] if err != "runtime" else [],
                      terminal="error" if err == "runtime" else "complete", csuffix=suffix or ".recv",
                      cttl=ttl or "forever", cappends=capp, slow_on="*" if slow else "", cat=cat, interleave=lazy), script=script)


def command_module_append():
    """C19 (modules): a module of the definition whose exported function calls `.append`"""
    script = ('{\n  modules: {\n    amod: "export def note [tid: string, t: string] { {k: \"v.a1\", tid: $tid, t: $t} | .append p.a1 }"\n  }\n'
              '  run: {|frame|\n    amod note $frame.id $frame.topic\n    {k: "v.r1", tid: $frame.id, t: $frame.topic}\n  }\n}\n')
    return dict(_spec(fam="c", recv=["v.r1"], cappends=[_out("p.a1", "v.a1")]), script=script)


def command_module():
    """C19 (modules): a definition that brings its own module; the closure calls into it"""
    script = ('{\n  modules: {\n    vmod: "export def tag [x: string] { $\"v.($x)\" }"\n  }\n'
              '  run: {|frame|\n    [{k: (vmod tag "r1"), tid: $frame.id, t: $frame.topic} {k: (vmod tag "r2"), tid: $frame.id, t: $frame.topic}]\n  }\n}\n')
    return dict(_spec(fam="c", recv=["v.r1", "v.r2"]), script=script)


def handler_module():
    """C15 (modules): the same for a handler"""
    script = ('$env.n = 0\n{\n  modules: {\n    hmod: "export def word [] { \"ret\" }"\n  }\n  run: {|frame|\n'
              '    if not ($frame.topic | str starts-with "t.") { return }\n    $env.n = $env.n + 1\n'
              '    {k: (hmod word), n: $env.n, tid: $frame.id, t: $frame.topic}\n  }\n}\n')
    o = _out("{name}.out", "ret")
    o["name"], o["suf"], o["ret"] = "", "out", True
    return dict(_spec(fam="h", outs=[o], group=1), script=script)


COMMANDS = {
    "c_two": command(),
    "c_zero": command(values=()),
    "c_one": command(values=("r1",)),
    "c_three": command(values=("r1", "r2", "r3"), tag="w"),
    "c_app": command(values=("r1",), appends=2),
    "c_err": command(err="runtime", appends=1),
    "c_suffix": command(values=("r1", "r2"), suffix=".res", ttl=TTL_T),
    "c_slow": command(values=("r1", "r2"), slow=True, tag="s"),
    "c_cat": command(values=("r1",), cat=True),
    "c_ttl": command(values=("r1", "r2"), ttl=TTL_T),
    "c_lazy": command(values=("r1", "r2", "r3"), lazy=True, tag="z"),
    "c_env": command(values=("r1", "r2"), env=True, tag="e"),
    "c_bad_parse": dict(_spec(fam="c", valid=False), script="{run: {|frame| ( }"),
    "c_bad_norun": dict(_spec(fam="c", valid=False), script='{foo: "bar"}'),
}


# ------------------------------------------------------------------------------ generators
def generator(expr, values=(), duplex=False, panics=False, nocontent=False, per_send=1):
    return dict(_spec(fam="g", values=list(values), duplex=duplex, panics=panics, nocontent=nocontent,
                      per_send=per_send), script=expr)


GENERATORS = {
    "g_stream3": generator('["v1" "v2" "v3"] | each {|x| $x}', ("v1", "v2", "v3")),
    "g_stream1": generator('["v1"] | each {|x| $x}', ("v1",)),
    "g_stream0": generator('[] | each {|x| $x}', ()),
    "g_single": generator('"v1"', ("v1",)),
    "g_empty": generator("null | ignore", ()),
    # duplex: the input is a byte stream of the sends' contents; `lines` makes one value per send
    # (the client sends newline-terminated strings)
    "g_duplex": generator('lines | each {|x| $"e:($x)"}', (), duplex=True),
    # DESIGN 0.5 #12 (fixed 03f07bc; the worker thread used to panic after .start for these three): an expression
    # that does not parse is refused with .spawn.error, non-strings are skipped, a list value is emitted like a stream
    "g_bad_parse": dict(generator("this is not ( valid nu"), refused=True),
    "g_ints": generator("[1 2 3] | each {|x| $x}", ()),
    "g_listvalue": generator('["v1" "v2"]', ("v1", "v2")),
    "g_nocontent": generator("", nocontent=True),
}

ALL = {}
ALL.update(HANDLERS)
ALL.update(COMMANDS)
ALL.update(GENERATORS)

"""TLC side of the processors group: configurations of the three code-layer models
(spec/XsHandlers.tla, XsCommands.tla, XsGenerators.tla), spec mutants / named deviations that
must make TLC report a violation, and TLC -simulate generation of client action lists."""
import json
import os
import random

from common import SPEC, ToolError, log, model_check, tlc

# ---------------------------------------------------------------------------------- handlers
# as coded (since the fixes 0393425 b31b5e5 8f6ff67 the three former deviations KeyByCtx / CompactClientUnreg /
# SubBeforeAnnounce are repaired in the code; PatientClient = FALSE is the remaining known finding C16 #9b)
H_FLAGS = dict(KeyByCtx=True, SubBeforeAnnounce=True, PatientClient=True, OwnFilter=True, RegSkipLe=True, AtomicCall=True,
               StampAll=True, ForceCtx=True, UnregOnce=True, CompactUnreg=True, CompactClientUnreg=True)
H_C14 = ("C14_InvokedIsPrefixOfEligible C14_EligibleAllInvokedAtQuiet C14_OneAtATime C14_NoForeignCtx C14_NeverOwnOutput "
         "C14_NoOldRegistrationTraffic")
H_C15 = "C15_OutputsStamped C15_OutputsInHandlerCtx C15_OrderWithinCall C15_AllOrNothingPerCall"
H_C16 = "C16_StopAnnouncedOnce C16_StoppedIsSilent C16_InvalidNeverActive"
H_COMMON = f"{H_C14} {H_C15} {H_C16}"
# name: (scripts, ctxs, MaxClient, MaxRestarts, MaxData, MaxLog, flag overrides, extra invariants)
H_CONFIGS = {
    # as coded
    "call": ('{"two"}', "{0, 1}", 3, 0, 2, 14, {}, "C16_AtMostOneResponder C16_ReplacedIsStopped"),
    "life": ('{"echo", "bad"}', "{0}", 4, 0, 1, 12, {}, "C16_AtMostOneResponder C16_ReplacedIsStopped"),
    "head": ('{"echoH"}', "{0, 1}", 3, 0, 2, 12, {}, "C16_AtMostOneResponder C16_ReplacedIsStopped C16_RegisteredImpliesSubscribed"),
    "all": ('{"all"}', "{0}", 2, 0, 1, 9, {}, "C16_AtMostOneResponder"),
    "restart1": ('{"echo", "bad"}', "{0}", 3, 1, 1, 10, {}, "C17_RestoresActive C17_NoReexecution C16_AtMostOneResponder"),
    # the repaired design: every invariant
    "fixed": ('{"echo"}', "{0, 1}", 3, 1, 1, 10, dict(KeyByCtx=True, SubBeforeAnnounce=True, CompactClientUnreg=True),
              "C17_RestoresActive C17_NoReexecution C16_AtMostOneResponder C16_ReplacedIsStopped C16_RegisteredImpliesSubscribed"),
    # thorough only: one more client action / a second context with a restart
    "call4": ('{"two"}', "{0}", 4, 0, 2, 14, {}, "C16_AtMostOneResponder C16_ReplacedIsStopped"),
    "restart2": ('{"echo"}', "{0, 1}", 3, 1, 1, 10, {}, "C17_NoReexecution C16_AtMostOneResponder"),
}
H_QUICK = ["call", "life", "head", "all", "restart1", "fixed"]
# (config, flag, value, invariant TLC must report): mechanisms switched off + named deviations of the code
H_MUTANTS = [
    ("all", "OwnFilter", False, "C14_NeverOwnOutput"),
    ("head", "RegSkipLe", False, "C14_NoOldRegistrationTraffic"),
    ("call", "AtomicCall", False, "C15_AllOrNothingPerCall"),
    ("call", "StampAll", False, "C15_OutputsStamped"),
    ("call", "ForceCtx", False, "C15_OutputsInHandlerCtx"),
    ("life", "UnregOnce", False, "C16_StopAnnouncedOnce"),
    # (with the client's .unregister honoured at start-up, ignoring the handler's own .unregistered only shows
    #  for stops that no client frame explains, so this one is run with that switch off as well)
    ("restart1", "CompactUnreg", False, "C17_RestoresActive", dict(CompactClientUnreg=False)),
    # named deviations: as coded the invariant fails, that is the known finding
    ("fixed", "KeyByCtx", False, "C17_RestoresActive"),
    ("fixed", "SubBeforeAnnounce", False, "C16_RegisteredImpliesSubscribed"),
    ("life", "PatientClient", False, "C16_ReplacedIsStopped"),
    ("fixed", "CompactClientUnreg", False, "C16_ReplacedIsStopped"),
]


def h_cfg(name, gen=False, flags=None, invariants=None):
    scripts, ctxs, mc, mr, md, ml, over, extra = H_CONFIGS[name]
    fl = dict(H_FLAGS)
    fl.update(over)
    fl.update(flags or {})
    t = ["SPECIFICATION Spec", "CONSTANTS", '  Names = {"a"}', f"  Ctxs = {ctxs}", f"  Scripts = {scripts}", f"  MaxClient = {mc}",
         f"  MaxRestarts = {mr}", f"  MaxData = {md}", f"  MaxLog = {ml}"]
    t += [f"  {k} = {str(v).upper()}" for k, v in fl.items()]
    t += [f"  Gen = {str(gen).upper()}", "CONSTRAINT LogBound"]
    if gen:
        t += ["INVARIANT GenInv"]
    else:
        t += ["VIEW mcview", f"INVARIANT {invariants if invariants is not None else H_COMMON + ' ' + extra}"]
    t += ["CHECK_DEADLOCK FALSE"]
    return "\n".join(t) + "\n"


# ---------------------------------------------------------------------------------- commands
C_FLAGS = dict(KeyByCtx=True, OneTerminal=True, SkipOldCalls=True, StampCall=True, CallerCtx=True, LatestWins=True)
C_KEYFREE = ("C19_AtMostOneTerminal C19_TerminalIsLast C19_RecvInOrder C19_Stamped "
             "C19_CallerCtx C19_ResultMatchesScript C19_NoReplay C19_InvalidDefinitionReported")
C_COMMON = C_KEYFREE + " C19_ExactlyOneTerminalAtQuiet C19_UndefinedSilent C17_CommandsRestored"
C_CONFIGS = {
    # as coded, one context: name-keyed = (context, name)-keyed
    "one": ('{"a"}', "{0}", '{"two", "err", "bad"}', 3, 1, 12, {}, "C19_LatestValidDefinition"),
    "names": ('{"a", "b"}', "{0}", '{"two", "zero"}', 4, 0, 12, {}, "C19_LatestValidDefinition"),
    # as coded, two contexts, everything that does not depend on the keying
    "ctx": ('{"a"}', "{0, 1}", '{"two", "err"}', 3, 1, 12, {}, None),
    "fixed": ('{"a"}', "{0, 1}", '{"two", "err"}', 3, 1, 12, dict(KeyByCtx=True), "C19_LatestValidDefinition"),
}
C_CONFIGS["one4"] = ('{"a"}', "{0}", '{"two", "err", "bad"}', 4, 1, 14, {}, "C19_LatestValidDefinition")     # thorough only
C_QUICK = ["one", "names", "ctx", "fixed"]
C_MUTANTS = [
    ("one", "OneTerminal", False, "C19_AtMostOneTerminal"),
    ("one", "SkipOldCalls", False, "C19_NoReplay"),
    ("one", "StampCall", False, "C19_Stamped"),
    ("ctx", "CallerCtx", False, "C19_CallerCtx", dict(KeyByCtx=False)),  # (definition and caller contexts differ only with a name-keyed table)
    ("one", "LatestWins", False, "C19_LatestValidDefinition"),
    ("fixed", "KeyByCtx", False, "C19_LatestValidDefinition"),      # named deviation of the code
]


def c_cfg(name, gen=False, flags=None, invariants=None):
    names, ctxs, scripts, mc, mr, ml, over, extra = C_CONFIGS[name]
    fl = dict(C_FLAGS)
    fl.update(over)
    fl.update(flags or {})
    t = ["SPECIFICATION Spec", "CONSTANTS", f"  Names = {names}", f"  Ctxs = {ctxs}", f"  Scripts = {scripts}", f"  MaxClient = {mc}",
         f"  MaxRestarts = {mr}", f"  MaxLog = {ml}"]
    t += [f"  {k} = {str(v).upper()}" for k, v in fl.items()]
    t += [f"  Gen = {str(gen).upper()}", "CONSTRAINT LogBound"]
    if gen:
        t += ["INVARIANT GenInv"]
    else:
        t += ["VIEW mcview", f"INVARIANT {invariants if invariants is not None else (C_KEYFREE if extra is None else C_COMMON + ' ' + extra)}"]
    t += ["CHECK_DEADLOCK FALSE"]
    return "\n".join(t) + "\n"


# ---------------------------------------------------------------------------------- generators
G_FLAGS = dict(KeyByCtx=True, CompactByRef=True, Panics=False, StopLast=True, StampSource=True, OneSpawnError=True, FeedOnce=True)
G_COMMON = ("C18_Lifecycle C18_RecvInOrderAndComplete C18_SourceAndCtx C18_AtMostOneSpawnError C18_RefusedNeverRuns "
            "C18_EverySpawnAnswered C18_SendsOnceInOrder")
G_CONFIGS = {
    "cycle": ('{"a"}', "{0}", '{"two", "nocontent"}', 3, 1, 2, 14, {}, "C18_StartedTaskStops"),
    "fixed1": ('{"a"}', "{0}", '{"two", "nocontent"}', 3, 1, 1, 12, dict(CompactByRef=True), "C18_StartedTaskStops C17_GeneratorsRestored"),
    "zero": ('{"a"}', "{0}", '{"zero"}', 2, 1, 2, 10, {}, "C18_StartedTaskStops C17_GeneratorsRestored"),
    "bad": ('{"a"}', "{0, 1}", '{"two", "bad"}', 2, 1, 2, 14, {}, ""),
    "duplex": ('{"a"}', "{0}", '{"dup"}', 4, 1, 1, 12, {}, "C17_GeneratorsRestored"),
    "fixed": ('{"a"}', "{0, 1}", '{"two"}', 2, 1, 1, 12, dict(KeyByCtx=True, CompactByRef=True, Panics=False), "C18_StartedTaskStops C17_GeneratorsRestored"),
}
G_CONFIGS["cycle3"] = ('{"a"}', "{0}", '{"two", "zero", "nocontent"}', 3, 1, 2, 16, {}, "C18_StartedTaskStops")   # thorough only
G_QUICK = ["cycle", "zero", "bad", "duplex", "fixed1", "fixed"]
G_MUTANTS = [
    ("cycle", "StopLast", False, "C18_RecvInOrderAndComplete"),
    ("cycle", "StampSource", False, "C18_SourceAndCtx"),
    ("cycle", "OneSpawnError", False, "C18_AtMostOneSpawnError"),
    ("duplex", "FeedOnce", False, "C18_SendsOnceInOrder"),
    # named deviations of the code
    ("fixed", "KeyByCtx", False, "C17_GeneratorsRestored"),
    ("fixed1", "CompactByRef", False, "C17_GeneratorsRestored"),
    ("bad", "Panics", True, "C18_StartedTaskStops"),
]


def g_cfg(name, gen=False, flags=None, invariants=None):
    names, ctxs, scripts, mc, mr, mcy, ml, over, extra = G_CONFIGS[name]
    fl = dict(G_FLAGS)
    fl.update(over)
    fl.update(flags or {})
    t = ["SPECIFICATION Spec", "CONSTANTS", f"  Names = {names}", f"  Ctxs = {ctxs}", f"  Scripts = {scripts}", f"  MaxClient = {mc}",
         f"  MaxRestarts = {mr}", f"  MaxCycles = {mcy}", f"  MaxLog = {ml}"]
    t += [f"  {k} = {str(v).upper()}" for k, v in fl.items()]
    t += [f"  Gen = {str(gen).upper()}", "CONSTRAINT LogBound"]
    if gen:
        t += ["INVARIANT GenInv"]
    else:
        t += ["VIEW mcview", f"INVARIANT {invariants if invariants is not None else G_COMMON + ' ' + extra}"]
    t += ["CHECK_DEADLOCK FALSE"]
    return "\n".join(t) + "\n"


FAMILIES = {
    "h": ("MCXsHandlers.tla", "MC_proc_h_{}.cfg", h_cfg, H_CONFIGS, H_QUICK, H_MUTANTS),
    "c": ("MCXsCommands.tla", "MC_proc_c_{}.cfg", c_cfg, C_CONFIGS, C_QUICK, C_MUTANTS),
    "g": ("MCXsGenerators.tla", "MC_proc_g_{}.cfg", g_cfg, G_CONFIGS, G_QUICK, G_MUTANTS),
}


# (module, liveness config, flag whose FALSE must violate a temporal property, that property)
LIVE = [("MCXsCommands.tla", "MC_proc_live_c.cfg", "LatestWins", "L_Restored"),
        ("MCXsGenerators.tla", "MC_proc_live_g.cfg", "CompactByRef", "L_Restored")]


def write_cfgs():
    for fam, (mod, pat, fn, cfgs, _, _) in FAMILIES.items():
        for name in cfgs:
            p = os.path.join(SPEC, pat.format(name))
            t = fn(name)
            if not os.path.exists(p) or open(p).read() != t:
                open(p, "w").write(t)


def check(tier):
    write_cfgs()
    jobs = []
    for fam, (mod, pat, fn, cfgs, quick, _) in FAMILIES.items():
        for name in (quick if tier == "quick" else list(cfgs)):
            jobs.append((mod, pat.format(name)))
    # liveness twins of the commands and generators models (FairSpec: weak fairness of the serve loop and of the tasks; no VIEW, no
    # CONSTRAINT): the server catches up, every call is answered, invalid definitions are reported, the table is restored
    jobs += [(m, c) for m, c, _, _ in LIVE]
    # two TLC runs at a time, 4 workers each (other work runs on this machine: <= 8 workers)
    from concurrent.futures import ThreadPoolExecutor
    with ThreadPoolExecutor(max_workers=2) as ex:
        return list(ex.map(lambda j: model_check(j[0], j[1], workers=4, timeout=1500), jobs))


def check_spec_mutants(d):
    """each mechanism switched off / each named deviation must make TLC report the invariant"""
    res = []
    for fam, (mod, pat, fn, cfgs, _, mutants) in FAMILIES.items():
        for mt in mutants:
            cname, flag, val, inv = mt[:4]
            fl = {flag: val}
            fl.update(mt[4] if len(mt) > 4 else {})      # further switches the mutant needs to show
            cfgp = os.path.join(d, f"mut_{fam}_{cname}_{flag}.cfg")
            open(cfgp, "w").write(fn(cname, flags=fl, invariants=inv))
            out, _, _, _ = tlc(mod, cfgp, workers=8, timeout=900)
            caught = f"Invariant {inv} is violated" in out
            res.append({"module": mod, "cfg": cname, "flag": flag, "value": val, "invariant": inv, "caught": caught})
            if not caught:
                raise ToolError(f"spec mutant {mod}/{cname}/{flag}={val} does not violate {inv}: the invariant is vacuous\n" + out[-2000:])
    for mod, cfg, flag, prop in LIVE:
        cfgp = os.path.join(d, f"livemut_{cfg}")
        open(cfgp, "w").write(open(os.path.join(SPEC, cfg)).read().replace(f"{flag} = TRUE", f"{flag} = FALSE"))
        out, _, _, _ = tlc(mod, cfgp, workers=8, timeout=900)
        caught = f"Temporal property {prop} was violated" in out or "Temporal properties were violated" in out
        res.append({"module": mod, "cfg": cfg, "flag": flag, "value": False, "invariant": prop, "caught": caught})
        if not caught:
            raise ToolError(f"liveness spec mutant {mod}/{cfg}/{flag} does not violate {prop}\n" + out[-2000:])
    return res


# ---------------------------------------------------------------------------------- generation
# abstract script kind of a model -> catalogue kinds that concretise it
CONCRETE = {
    "h": {"echo": ["h_echo", "h_str", "h_int", "h_list", "h_a1", "h_suffix", "h_cat", "h_bool", "h_none"],
          "echoH": ["h_echo_head", "h_cat_head"],
          "two": ["h_fail_mid", "h_fail_after", "h_fail_before"],
          "all": ["h_all"], "bad": ["h_bad_parse", "h_bad_arity0", "h_bad_norun", "h_bad_resume", "h_bad_ttl", "h_bad_arity2"]},
    "c": {"two": ["c_two", "c_suffix", "c_slow", "c_app"], "zero": ["c_zero"], "err": ["c_err"], "bad": ["c_bad_parse", "c_bad_norun"]},
    "g": {"two": ["g_stream3", "g_stream1", "g_single"], "zero": ["g_stream0", "g_empty"], "bad": ["g_bad_parse", "g_ints", "g_listvalue"],
          "nocontent": ["g_nocontent"], "dup": ["g_duplex"]},
}
GEN_CONFIGS = {"h": ["call", "life", "head", "restart1", "fixed"], "c": ["one", "names", "ctx"], "g": ["cycle", "bad"]}


def concretise(fam, acts, rng):
    """client action list of the model -> scenario actions"""
    out = []
    names = {}
    for a in acts:
        k = a["a"]
        if k == "restart":
            out.append(dict(a="restart", how=rng.choice(["kill", "exit"]), quiet=True))
            continue
        nm = names.setdefault(a["n"], {"h": "h", "c": "c", "g": "g"}[fam] + str(len(names) + 1))
        c = a["c"]
        if k == "register":
            out.append(dict(a="reg", n=nm, c=c, k=rng.choice(CONCRETE["h"][a["k"]])))
        elif k == "unregister":
            out.append(dict(a="unreg", n=nm, c=c))
        elif k == "data":
            out.append(dict(a="trig", c=c, t=rng.choice(["t.x", "t.y"])))
        elif k == "dataF":
            out.append(dict(a="trig", c=c, t="t.fail"))
        elif k == "define":
            out.append(dict(a="define", n=nm, c=c, k=rng.choice(CONCRETE["c"][a["k"]])))
        elif k == "call":
            out.append(dict(a="call", n=nm, c=c))
        elif k == "spawn":
            out.append(dict(a="spawn", n=nm, c=c, k=rng.choice(CONCRETE["g"][a["k"]])))
        elif k == "send":
            out.append(dict(a="send", n=nm, c=c, v="s%d\n" % len(out)))
    return out


def generate(n, seed, d):
    """TLC -simulate on the models: distinct client action lists, concretised"""
    write_cfgs()
    rng = random.Random(seed + 4711)
    per = max(2, n // sum(len(v) for v in GEN_CONFIGS.values()))
    jobs = [(fam, cname) for fam, cfgs in GEN_CONFIGS.items() for cname in cfgs]

    def sim(job):
        fam, cname = job
        mod, pat, fn, _, _, _ = FAMILIES[fam]
        cfgp = os.path.join(d, f"gen_{fam}_{cname}.cfg")
        open(cfgp, "w").write(fn(cname, gen=True))
        out, _, _, _ = tlc(mod, cfgp, workers=1, extra=f"-simulate num={per * 6} -depth 60 -seed {seed + 7}", timeout=300)
        lists = set()
        for line in out.splitlines():
            if line.startswith('<<"ACTS"'):
                sj = line[line.index(",") + 1:].rstrip(">").strip()
                lists.add(json.loads(sj))
        if not lists:
            raise ToolError(f"no behaviours generated from {mod}/{cname}:\n" + out[-2000:])
        return sorted(lists)

    from concurrent.futures import ThreadPoolExecutor
    with ThreadPoolExecutor(max_workers=5) as ex:
        all_lists = list(ex.map(sim, jobs))
    res = []
    for (fam, cname), lists in zip(jobs, all_lists):
        rng.shuffle(lists)
        for l in lists[:per]:
            acts = concretise(fam, json.loads(l), rng)
            mode = rng.choice(["A", "A", "B"]) if fam != "g" else "A"
            if fam == "h":
                acts += [dict(a="settle"), dict(a="trig", c=0, t="t.p", wait=True), dict(a="trig", c=1, t="t.p", wait=True)]
            res.append(dict(actions=acts, mode=mode, cfg=f"tlc-{fam}-{cname}", gen_cycles=1))
    return res

"""TLC side of the processors group (filled in below)."""


def check(tier):
    return []


def check_spec_mutants(d):
    return []


def generate(n, seed, d):
    return []

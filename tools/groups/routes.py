"""Routes group (C13): spec/XsRoutes.tla transcribes the dispatch table of the HTTP front end (method x path shape x
query shape x Accept x body shape -> status, effect on the store, rendering); TLC checks the design statements (totality,
a refusal changes nothing, only POST / DELETE write, ids and topics share a path segment without ambiguity, fixed arms
first) over the whole request alphabet and emits one vector per request; the harness sends every vector as raw HTTP/1.1 to
the real xs::api::serve (a fresh frame in the store each time) and TLC validates the recorded outcomes against the same
function."""
import json
import os
import shutil
import time

from common import (SPEC, XSV, ToolError, log, scratch, sh, tlc)

PROPS = ["C13"]


def _run_vectors(d):
    out, gen, dist, rc = tlc("XsRoutes.tla", "MC_routes.cfg", workers=1, timeout=300)
    if "No error has been found" not in out:
        raise ToolError("XsRoutes: TLC reports an error in the transcription (model problem):\n" + out[-3000:])
    vec = os.path.join(d, "vec.ndjson")
    nvec = 0
    with open(vec, "w") as f:
        for l in out.splitlines():
            if l.startswith('"VEC '):
                f.write(json.loads(l)[4:] + "\n")
                nvec += 1
    if nvec < 5000:
        raise ToolError("XsRoutes emitted too few vectors")
    resf = os.path.join(d, "res.ndjson")
    p = sh([XSV, "routes-run", "--in", vec, "--out", resf, "--jobs", "12"], timeout=900)
    nres = json.loads(p.stdout.strip().splitlines()[-1])["results"]
    tout, tgen, tdist, _ = tlc("XsRoutes.tla", "TraceRoutes.cfg", workers=1, env={"TRACE": resf}, timeout=600)
    if "No error has been found" not in tout or '"VERDICT ' not in tout:
        raise ToolError("routes trace validation did not finish:\n" + tout[-3000:])
    viols = [json.loads(json.loads(l)[5:]) for l in tout.splitlines() if l.startswith('"VIOL ')]
    return nvec, nres, tdist, viols, resf, max(gen, 1), max(dist, 1)


def run(tier, seed):
    t0 = time.time()
    d = scratch("routes")
    try:
        nvec, nres, tdist, viols, resf, gen, dist = _run_vectors(d)
        res = {"group": "routes", "tier": tier, "seed": seed,
               "mc": [{"module": "XsRoutes.tla", "cfg": "MC_routes.cfg", "generated": gen, "distinct": dist, "ok": True,
                       "vectors": nvec, "assumes": ["Total", "RefusalChangesNothing", "OnlyPostAndDeleteWrite", "ReadsIgnoreBody",
                                                    "IdPathsAgree", "FixedArmsFirst", "DeleteIdempotent"]}],
               "behaviours": nres, "events": nres, "trace_states": tdist, "known": [], "violations": {},
               "samples": [json.loads(l) for l in open(resf).readlines()[:3]]}
        if viols:
            os.makedirs(os.path.join(os.path.dirname(SPEC), "replays"), exist_ok=True)
            path = os.path.join(os.path.dirname(SPEC), "replays", "routes.json")
            json.dump({"group": "routes", "violations": viols[:200]}, open(path, "w"), indent=1)
            res["violations"]["C13"] = [{"b": 0, "event": v["l"], "kind": v["e"], "replay": path} for v in viols]
    finally:
        shutil.rmtree(d, ignore_errors=True)
    res["wall_s"] = round(time.time() - t0, 1)
    log(f"routes group: {nvec} vectors, {nres} results, violations {sorted(res['violations'])}, {res['wall_s']}s")
    return res


def replay(rp, d):
    """all vectors again on the current tree"""
    return _run_vectors(d)[3]

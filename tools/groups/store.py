"""Store group: XsStore (code layer, TLC) + TraceStore (observer) bound to src/store/mod.rs.
Decides C01 C05 C07 C08 C09 C20 and the store-API parts of C06 and C12."""
import glob
import json
import os
import shutil
import time
from concurrent.futures import ThreadPoolExecutor

from common import (SPEC, XSV, ToolError, build_xs_bin, log, model_check, scratch, sh, tlc)

PROPS = ["C01", "C05", "C06", "C07", "C08", "C09", "C12", "C20"]

TIERS = {
    # TLC configs, behaviours from TLC -simulate, random behaviours, ops per random behaviour
    "quick": dict(mc=["MC_store_quick_mixed.cfg", "MC_store_quick_gc.cfg", "MC_store_quick_ctx.cfg"],
                  sim=600, sim_depth=60, rnd=1400, rnd_ops=16, probes=3, chunk=250),
    "thorough": dict(mc=["MC_store_quick_mixed.cfg", "MC_store_quick_gc.cfg", "MC_store_quick_ctx.cfg",
                         "MC_store_mixed3.cfg", "MC_store_gc4.cfg"],
                     sim=6000, sim_depth=80, rnd=20000, rnd_ops=28, probes=4, chunk=500),
}


def gen_tlc_behaviours(n, depth, seed, out, b0=0):
    so, _, _, _ = tlc("MCXsStore.tla", "MC_store_gen.cfg", workers=1,
                      extra=f"-simulate num={n} -depth {depth} -seed {seed}", timeout=900)
    k = 0
    with open(out, "w") as f:
        for line in so.splitlines():
            if line.startswith('<<"REPLAY"'):
                s = line[line.index(",") + 1:].rstrip(">").strip()
                ops = json.loads(json.loads(s))
                f.write(json.dumps({"b": b0 + k, "W": 8, "seed": seed * 1000003 + k, "ops": ops}) + "\n")
                k += 1
    if k == 0:
        raise ToolError("TLC generated no behaviours:\n" + so[-3000:])
    return k


def validate(trace_file):
    out, gen, dist, rc = tlc("TraceStore.tla", "TraceStore.cfg", workers=1, env={"TRACE": trace_file},
                             timeout=1800, xmx="3g")
    viols, verdict = [], None
    for line in out.splitlines():
        if line.startswith('"VIOL '):
            viols.append(json.loads(json.loads(line)[5:]))
        elif line.startswith('"VERDICT '):
            verdict = json.loads(json.loads(line)[8:])
    if verdict is None or "No error has been found" not in out:
        raise ToolError(f"trace validation did not finish for {trace_file}:\n" + out[-4000:])
    return viols, verdict, dist


HTTP_TIERS = {
    "quick": dict(mc=["MC_store_quick_mixed.cfg"], sim=300, sim_depth=60, rnd=700, rnd_ops=16, probes=3, chunk=250),
    "thorough": dict(mc=["MC_store_quick_mixed.cfg"], sim=3000, sim_depth=80, rnd=10000, rnd_ops=24, probes=4, chunk=500),
}


def apalache_inductive():
    """IndInv of spec/apalache/XsStoreInd.tla (partitions agree, registry is a function of the frames) is
    inductive: unbounded histories over a 4-id universe. Cached per file content."""
    import hashlib
    d = os.path.join(SPEC, "apalache")
    key = hashlib.sha256(open(os.path.join(d, "XsStoreInd.tla"), "rb").read()).hexdigest()[:16]
    cf = os.path.join(os.path.dirname(SPEC), ".cache", f"apalache-{key}.json")
    if os.path.exists(cf):
        return json.load(open(cf))
    out = scratch("apalache")
    t0 = time.time()
    try:
        r = []
        for init, length in (("Init", 0), ("IndInit", 1)):
            p = sh(f"apalache-mc check --cinit=ConstInit --init={init} --inv=IndInv --length={length} "
                   f"--out-dir={out} XsStoreInd.tla", cwd=d, timeout=1800, check=False)
            ok = "The outcome is: NoError" in p.stdout
            r.append({"init": init, "length": length, "ok": ok})
            if not ok:
                raise ToolError("Apalache: IndInv of XsStoreInd is not inductive (model problem):\n" + p.stdout[-2000:])
    finally:
        shutil.rmtree(out, ignore_errors=True)
    res = {"module": "apalache/XsStoreInd.tla", "obligations": r, "wall_s": round(time.time() - t0, 1)}
    json.dump(res, open(cf, "w"))
    log(f"apalache: IndInv inductive ({res['wall_s']}s)")
    return res


# through the real `xs` binary: one child process per operation (about 15 ms each), hence fewer behaviours
CLI_TIERS = {
    "quick": dict(mc=["MC_store_quick_mixed.cfg"], sim=50, sim_depth=60, rnd=110, rnd_ops=14, probes=2, chunk=80),
    "thorough": dict(mc=["MC_store_quick_mixed.cfg"], sim=500, sim_depth=80, rnd=1500, rnd_ops=20, probes=3, chunk=250),
}


# named deviations of the mechanism in XsStore (constant Dev) and the invariant TLC must report for each
MODEL_DEVIATIONS = [("reg-before-refusal", "INV_Dump", "MC_store_quick_ctx.cfg"),
                    ("import-overwrites", "INV_Read", "MC_store_quick_ctx.cfg"),
                    # a head:K append that does not queue the collector's check: the queue is empty but the topic is not trimmed
                    ("head-check-skipped", "INV_Drained", "MC_store_quick_gc.cfg")]
# liveness twin of the gc configuration (FairSpec = weak fairness of the collector's step): the queue drains, the
# enforced state of C09 is reached whatever the clients do
LIVE_MC = ["MC_store_live_gc.cfg"]


def check_model_deviations(d):
    """vacuity guard: with a deviation switched on, TLC must report a violated invariant"""
    res = []
    for dev, inv, basecfg in MODEL_DEVIATIONS:
        base = open(os.path.join(SPEC, basecfg)).read()
        cfgp = os.path.join(d, f"dev_{dev}.cfg")
        open(cfgp, "w").write(base.replace('Dev = "none"', f'Dev = "{dev}"'))
        out, _, _, _ = tlc("MCXsStore.tla", cfgp, workers=4, timeout=900)
        caught = "is violated" in out
        res.append({"deviation": dev, "expected": inv, "caught": caught})
        if not caught:
            raise ToolError(f"model deviation {dev} not rejected: the invariants of XsStore are vacuous for it")
    return res


def run(tier, seed, regress=True, http=False, cli=False, nu=False):
    cfg = (CLI_TIERS if cli else HTTP_TIERS if http or nu else TIERS)[tier]
    t0 = time.time()
    gname = "nu" if nu else "cli" if cli else "http" if http else "store"
    http = http or cli
    renv = {}
    if cli:
        renv["XSV_CLI"] = build_xs_bin()
    if nu:
        renv["XSV_NU"] = "1"
    res = {"group": gname, "tier": tier, "seed": seed}
    # (1) the design, as modelled
    mcs = [model_check("MCXsStore.tla", c) for c in cfg["mc"]]
    # key layout of the topic index (pure: ASSUMEs over all short byte strings)
    mcs.append(model_check("XsKeys.tla", "MC_keys.cfg", workers=2))
    res["mc"] = mcs
    if not http and not nu:
        res["live"] = [model_check("MCXsStore.tla", c, workers=6) for c in LIVE_MC]
    if tier == "thorough" and not http:
        res["inductive"] = apalache_inductive()
        dd = scratch("store-dev")
        try:
            res["model_deviations"] = check_model_deviations(dd)
        finally:
            shutil.rmtree(dd, ignore_errors=True)
    # (2) behaviours: TLC-generated + seeded random + committed regressions
    d = scratch(gname)
    try:
        behs = os.path.join(d, "beh.ndjson")
        n1 = gen_tlc_behaviours(cfg["sim"], cfg["sim_depth"], seed + 1, os.path.join(d, "tlc.ndjson"))
        sh([XSV, "store-gen", "--seed", str(seed), "--n", str(cfg["rnd"]), "--ops", str(cfg["rnd_ops"]),
            "--b0", "100000", "--out", os.path.join(d, "rnd.ndjson")])
        with open(behs, "w") as f:
            f.write(open(os.path.join(d, "tlc.ndjson")).read())
            f.write(open(os.path.join(d, "rnd.ndjson")).read())
            rg = os.path.join(SPEC, "regress", "store.ndjson")
            nreg = 0
            if regress and os.path.exists(rg):
                for l in open(rg):
                    if l.strip():
                        f.write(l.strip() + "\n")
                        nreg += 1
        all_behs = [json.loads(l) for l in open(behs)]
        t1 = time.time()
        p = sh([XSV, "store-replay", "--in", behs, "--out", os.path.join(d, "trace"), "--jobs", "32" if cli else "12",
                "--probes", str(cfg["probes"]), "--chunk", str(cfg["chunk"])] + (["--http"] if http else []), timeout=3000,
               env=dict(renv, XSV_SCRATCH=d))
        stats = json.loads(p.stdout.strip().splitlines()[-1])
        t2 = time.time()
        files = sorted(glob.glob(os.path.join(d, "trace.*")), key=lambda s: int(s.rsplit(".", 1)[1]))
        with ThreadPoolExecutor(max_workers=8) as ex:
            outs = list(ex.map(validate, files))
        t3 = time.time()
        viols, known, states = [], set(), 0
        if cli:
            # behaviours cut short because the tool printed nothing after a successful call (see harness/src/storerun.rs)
            res["cli_output_lost"] = sum(1 for fn in files for l in open(fn) if '"cli_output_lost"' in l)
            if res["cli_output_lost"] > max(5, stats["behaviours"] // 10):
                raise ToolError(f"{res['cli_output_lost']} behaviours lost the tool's output: the command line path is not usable")
        for fidx, (v, verdict, dist) in enumerate(outs):
            states += dist
            known.update(verdict["known"])
            for x in v:
                x["file"] = files[fidx]
                viols.append(x)
        # replay files for violating behaviours
        res["violations"] = {}
        byb = {}
        for v in viols:
            byb.setdefault(v["b"], []).append(v)
        beh_by_b = {b["b"]: b for b in all_behs}
        os.makedirs(os.path.join(os.path.dirname(SPEC), "replays"), exist_ok=True)
        for b, vs in sorted(byb.items())[:40]:
            # the behaviour's events
            evs, on = [], False
            for l in open(vs[0]["file"]):
                e = json.loads(l)
                if e.get("e") == "reset":
                    on = e["b"] == b
                if on:
                    evs.append(e)
            path = os.path.join(os.path.dirname(SPEC), "replays", f"{gname}-b{b}.json")
            json.dump({"group": gname, "behaviour": beh_by_b.get(b), "violations": vs, "trace": evs},
                      open(path, "w"))
            for v in vs:
                for p_ in v["props"]:
                    res["violations"].setdefault(p_, []).append({"b": b, "event": v["l"], "kind": v["e"], "replay": path})
        res.update({
            "behaviours": stats["behaviours"], "events": stats["events"], "from_tlc": n1, "random": cfg["rnd"],
            "regress": nreg, "trace_states": states, "known": sorted(known),
            "samples": [all_behs[0], all_behs[n1] if len(all_behs) > n1 else all_behs[-1]],
            "t_replay": round(t2 - t1, 1), "t_validate": round(t3 - t2, 1),
        })
    finally:
        shutil.rmtree(d, ignore_errors=True)
    res["wall_s"] = round(time.time() - t0, 1)
    log(f"{gname} group: {res['behaviours']} behaviours, {res['events']} events, "
        f"violations {sorted(res['violations'])}, known {res['known']}, {res['wall_s']}s")
    return res

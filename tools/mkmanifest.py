#!/usr/bin/env python3
"""Regenerates /verif/MANIFEST.json from the tables below (kept valid at all times)."""
import json, os, subprocess, sys
sys.path.insert(0, os.path.dirname(os.path.abspath(__file__)))
from check import PROP_GROUPS

V = os.path.dirname(os.path.dirname(os.path.abspath(__file__)))
props = [json.loads(l) for l in open(os.path.join(V, "properties.jsonl"))]

TEXT = {
 "store": ("XsStore (code-layer TLA+ model of src/store/mod.rs: three partitions, registry, GC queue, clock) is exhausted by TLC "
           "for small constants with the XsProps statements as invariants over every read parameter; TLC -simulate behaviours "
           "of that model and seeded random behaviours are replayed on the real Store (worker processes, reopen = new process, "
           "virtual clock, gated collector) and every recorded observation trace is validated by TLC against the observer "
           "spec TraceStore, which judges with the same XsProps operators."),
}
TEXT["conc"] = ("XsConcurrent (code-layer TLA+ model of Store::append / Store::read(follow) / last-id polling, one action per "
                "gate-to-gate segment: id assignment under the append lock, commit, broadcast, return; subscribe, history pulls, "
                "threshold, done hand-off, live receive/dedupe/send, heartbeat, consumer) is exhausted by TLC for 2 writers and small "
                "buffers; TLC -simulate schedules of it and seeded random walks over the parked actors (implementation-side "
                "exploration) drive the real threads through the xs_verif gate scheduler; every event log is validated by TLC "
                "against the observer spec TraceFollow.")
TEXT["http"] = ("The same TLC-generated and random store behaviours are executed through the real HTTP front end (xs::api::serve "
                "on the unix socket; raw requests; NDJSON and SSE renderings compared) together with 34 malformed-request classes; the "
                "recorded trace carries every response status and is validated by TLC against TraceStore (store semantics via XsProps, "
                "status classes, 'failure changes nothing' via raw partition dumps before/after, server still answers).")
TEXT["proc"] = ("XsHandlers / XsCommands / XsGenerators (code-layer TLA+ models of src/handlers, src/commands, src/generators: one "
                "action per step of the serve loops, instances and tasks, restart = kill at any point + start; the code's known "
                "deviations are named flags) are exhausted by TLC for 1-2 names x 2 contexts, <= 4 client actions, <= 1 restart with "
                "the property statements as invariants; TLC -simulate client action lists of these models, the same lists with a "
                "restart at every position, seeded random lists (waits between actions or none, bursts from several client threads) "
                "and a regression list are executed against the three real serve loops wired as main.rs does, inside a worker "
                "process that is killed / exits for a restart; the stream itself (every frame with stamps and CAS content) is the "
                "trace and is validated by TLC against the observer spec TraceProc.")
NOTE = {
 "proc": "Trusted: TLC, the runner's normalisation of frames (dense ranks, content tokens), the script catalogue being deterministic. "
         "Bounded: MC_proc_*.cfg constants; histories sampled; absence of a frame is judged after a 20-30 s wait on something owed; "
         "ephemeral / head:N TTLs and nu modules are not in the script catalogue.",
 "http": "Trusted: the harness' raw HTTP client and response parser. Bounded: one request per connection; follow routes over HTTP are exercised separately.",
 "conc": "Trusted: TLC, the gate hooks (events are logged under one mutex after the state change), rank abstraction of ids. Bounded: MC_conc_*.cfg constants; schedules sampled.",
 "store": "Trusted: TLC, the harness' abstraction of concrete values back to model tokens, the xs_verif hooks (virtual clock, GC gate, raw dump). Bounded: model constants in spec/MC_store_*.cfg; behaviours sampled, not enumerated.",
}
TECH = {
 "proc": "TLC model checking of XsHandlers/XsCommands/XsGenerators + TLC trace validation (TraceProc) of client histories executed on the real serve loops, restarts by killing the serving process",
 "http": "TLC trace validation (TraceStore + status rules) of model-generated behaviours executed over HTTP, plus malformed request classes",
 "conc": "TLC model checking of XsConcurrent + gate-scheduled replay/exploration of real threads + TLC trace validation (TraceFollow)",
 "store": "TLC model checking of XsStore + TLC trace validation (TraceStore) of replayed behaviours on the real store",
}
DESIGN = {"proc": "DESIGN.md 3 (XsHandlers/XsGenerators/XsCommands), 5 (C14-C19), docs/proc-notes.md", "http": "DESIGN.md 5 (C13), Appendix D","conc": "DESIGN.md 3, 4.1, 5 (C02 C03 C11)", "store": "DESIGN.md 3, 4, 5 (C01 C05 C07 C08 C09 C20)"}

hooks_commits = subprocess.run("git -C /repo log --format=%h --grep='^verif hooks' ", shell=True, capture_output=True, text=True).stdout.split()

m = {
 "version": 1,
 "setup_cmd": "cd /verif/harness && cargo build 2>&1 | tail -2",
 "hooks": {
  "guard": "xs_verif",
  "enable": "rustc --cfg xs_verif, set in /verif/harness/.cargo/config.toml (the harness crate has a path dependency on /repo and is rebuilt by every check)",
  "baseline_off_cmd": "cd /repo && cargo nextest run --workspace --no-fail-fast --offline --test-threads 8",
  "source_commits": hooks_commits,
  "add_only": True,
 },
 "engines": [
  {"name": "check.py", "path": "tools/check.py", "serves_properties": sorted(PROP_GROUPS),
   "kind_free_text": "driver: cargo build of the harness against /repo, TLC model checking, TLC -simulate behaviour generation, replay on the real code, TLC trace validation, evidence"},
  {"name": "xsv", "path": "harness/", "serves_properties": sorted(PROP_GROUPS),
   "kind_free_text": "Rust conformance harness (replay, probes, abstraction of observations)"},
 ],
 "checks": [],
 "not_applicable": [],
 "notes": "Every check rebuilds the harness from /repo's working tree; results of one group run are shared between the properties of the group through /verif/.cache keyed by the tree state of /repo and /verif, tier and VERIF_SEED.",
}
for p in props:
    pid = p["id"]
    if pid in PROP_GROUPS:
        gs = PROP_GROUPS[pid]
        m["checks"].append({
            "property_id": pid,
            "quick_cmd": f"python3 tools/check.py {pid} --quick",
            "thorough_cmd": f"python3 tools/check.py {pid} --thorough",
            "evidence_file": f"evidence/{pid}.json",
            "replay_cmd_template": "python3 tools/replay.py {path}",
            "engine": "check.py",
            "level_claimed": {"category": "model_checking", "text": " ".join(TEXT[g] for g in gs),
                              "design_ref": "; ".join(DESIGN[g] for g in gs)},
            "level_note": " ".join(NOTE[g] for g in gs),
            "technique": "; ".join(TECH[g] for g in gs),
        })
    else:
        m["not_applicable"].append({"property_id": pid, "reason": "check not built yet (work in progress; planned in DESIGN.md section 5)"})
json.dump(m, open(os.path.join(V, "MANIFEST.json"), "w"), indent=1)
print("checks:", [c["property_id"] for c in m["checks"]])

#!/usr/bin/env python3
"""Regenerates /verif/MANIFEST.json from the tables below (kept valid at all times)."""
import json, os, subprocess, sys
sys.path.insert(0, os.path.dirname(os.path.abspath(__file__)))
from check import PROP_GROUPS

V = os.path.dirname(os.path.dirname(os.path.abspath(__file__)))
props = [json.loads(l) for l in open(os.path.join(V, "properties.jsonl"))]

TEXT = {
 "store": ("XsStore (code-layer TLA+ model of src/store/mod.rs: three partitions, registry, GC queue, clock) is exhausted by TLC "
           "for small constants with the XsProps statements as invariants over every read parameter; TLC -simulate behaviours "
           "of that model and seeded random behaviours are replayed on the real Store (worker processes, reopen = new process, "
           "virtual clock, gated collector) and every recorded observation trace is validated by TLC against the observer "
           "spec TraceStore, which judges with the same XsProps operators."),
}
TEXT["conc"] = ("XsConcurrent (code-layer TLA+ model of Store::append / Store::read(follow) / last-id polling, one action per "
                "gate-to-gate segment: id assignment under the append lock, commit, broadcast, return; subscribe, history pulls, "
                "threshold, done hand-off, live receive/dedupe/send, heartbeat, consumer) is exhausted by TLC for 2 writers and small "
                "buffers; TLC -simulate schedules of it and seeded random walks over the parked actors (implementation-side "
                "exploration) drive the real threads through the xs_verif gate scheduler; every event log is validated by TLC "
                "against the observer spec TraceFollow.")
TEXT["http"] = ("The same TLC-generated and random store behaviours are executed through the real HTTP front end (xs::api::serve "
                "on the unix socket; raw requests; NDJSON and SSE renderings compared) together with 34 malformed-request classes; the "
                "recorded trace carries every response status and is validated by TLC against TraceStore (store semantics via XsProps, "
                "status classes, 'failure changes nothing' via raw partition dumps before/after, server still answers).")
TEXT["codec"] = ("XsCodec transcribes the TTL and read-option grammar (parse_ttl, FollowOption, deserialize_bool, to_query) at token level; TLC checks "
                 "Parse(Render(v)) = v and rejection of malformed input over the whole alphabet and emits one vector per enumerated input; every vector is run "
                 "through the real parsers and renderers (string, query-string and JSON spellings, plus 2000 seeded whole-ReadOptions round trips) and the results are "
                 "validated by TLC against the same operators.")
TEXT["dur"] = ("XsDurable (code-layer TLA+ model of what survives a crash: per operation the steps CAS write, batch into fjall's "
               "user-space journal buffer, spill / flush to the OS, fsync, ack; CrashKill, CrashPower with torn tails, Recover) is "
               "exhausted by TLC for small constants with XsDurProps!ImageVerdict as invariant; operation lists (TLC -simulate of "
               "that model, seeded random, bulk data) are run on the real Store in a child process; for every store-mutating system "
               "call after the first ACK a real SIGKILL image (ptrace supervisor) and reconstructed power-loss images (strace log, "
               "tools/durimg.py) are opened by the real Store::new in a fresh process; TLC validates every observation against the "
               "observer spec TraceDurable, which judges with the same XsDurProps operators.")
TEXT["proc"] = ("XsHandlers / XsCommands / XsGenerators (code-layer TLA+ models of src/handlers, src/commands, src/generators: one "
                "action per step of the serve loops, instances and tasks, restart = kill at any point + start; the code's known "
                "deviations are named flags) are exhausted by TLC for 1-2 names x 2 contexts, <= 4 client actions, <= 1 restart with "
                "the property statements as invariants; TLC -simulate client action lists of these models, the same lists with a "
                "restart at every position, seeded random lists (waits between actions or none, bursts from several client threads) "
                "and a regression list are executed against the three real serve loops wired as main.rs does, inside a worker "
                "process that is killed / exits for a restart; the stream itself (every frame with stamps and CAS content) is the "
                "trace and is validated by TLC against the observer spec TraceProc.")
TEXT["cli"] = ("The same TLC-generated and random store behaviours are executed by the real `xs` binary built from /repo's working "
               "tree (src/main.rs argument handling and option building, src/client query / xs-meta / request encoding, direct CAS "
               "access for unix addresses), one child process per operation, against the API served on the store's unix socket; "
               "follow streams (`xs cat --follow`, `xs cat --pulse n --limit m`) run as child processes while frames are appended. "
               "Every answer is also asked of the Store API in the same state (differential: FrontEnd rule of TraceStore); the trace "
               "is validated by TLC against TraceStore.")
TEXT["routes"] = ("XsRoutes transcribes the dispatch table of src/api.rs (match_route, handle and the handlers' own refusals) as a function from "
                  "method x path shape x query shape x Accept x body shape to status, effect on the store and rendering; TLC checks the design "
                  "statements (totality, a refusal changes nothing, only POST / DELETE write, id paths unambiguous, fixed arms first, DELETE "
                  "idempotent) over the whole alphabet and emits one vector per request (8040); every vector is sent as raw HTTP/1.1 to the "
                  "real front end and the recorded outcome is validated by TLC against the same function.")
TEXT["nu"] = ("The same TLC-generated and random store behaviours are executed by nu scripts through the commands xs gives to "
              "scripts (src/nu/commands, src/nu/util.rs), one engine per context wired as src/commands/serve.rs does; every answer "
              "is also asked of the Store API in the same state (FrontEnd rule); the trace is validated by TLC against TraceStore.")
NOTE = {
 "routes": "Trusted: the harness' classification of what changed (every 50th vector against the raw partitions, otherwise through reads). Bounded: the path / query / body shapes of the alphabet; one representative string per shape.",
 "nu": "Trusted: the harness' one-line scripts and its conversion of nu values back to frame JSON (through xs::nu::value_to_json). Bounded: record metas with integers inside i64, printable topics; all-contexts reads, tail, import and POST /cas have no script command and stay with the Store API.",
 "cli": "Trusted: the harness' parsing of the tool's output and error text (HTTP status taken from the client's error message). Bounded: URL-safe topics without NUL; `xs cat --sse` and `xs head --follow` are not exercised through the tool; a successful call that prints nothing ends the behaviour (counted in the evidence).",
 "codec": "Trusted: the transcription is checked against the code by the vectors themselves. Limit of the technique (DESIGN 5, C12): the grammar is exhaustive at token level, data values are classes.",
 "proc": "Trusted: TLC, the runner's normalisation of frames (dense ranks, content tokens), the script catalogue being deterministic. "
         "Bounded: MC_proc_*.cfg constants; histories sampled; absence of a frame is judged after a 20-30 s wait on something owed; "
         "head:N TTLs are not in the script catalogue; ephemeral outputs and nu modules only through the regression scenarios (kinds h_eph_app, h_eph_fail, c_mod, h_mod).",
 "http": "Trusted: the harness' raw HTTP client and response parser. Bounded: one request per connection; follow routes over HTTP are exercised separately.",
 "dur": "Trusted: TLC, the ptrace supervisor, the strace-based reconstruction (self-checked against the real directory on every run), the ordered-metadata file-system model of tools/durimg.py, the abstraction of observations. Bounded: MC_dur_*.cfg constants; crash points at system-call granularity plus torn journal writes; memtable flush / journal rotation sampled by bulk runs, not modelled. CAS content durability against power loss is not claimed.",
 "conc": "Trusted: TLC, the gate hooks (events are logged under one mutex after the state change), rank abstraction of ids. Bounded: MC_conc_*.cfg constants; schedules sampled.",
 "store": "Trusted: TLC, the harness' abstraction of concrete values back to model tokens, the xs_verif hooks (virtual clock, GC gate, raw dump). Bounded: model constants in spec/MC_store_*.cfg; behaviours sampled, not enumerated.",
}
TECH = {
 "routes": "TLC enumeration of a TLA+ transcription of the HTTP dispatch table + one implementation test per model case, outcomes validated by TLC",
 "nu": "TLC trace validation (TraceStore + differential front-end rule) of model-generated behaviours executed through xs's nu commands",
 "cli": "TLC trace validation (TraceStore + differential front-end rule) of model-generated behaviours executed by the real xs binary",
 "dur": "TLC model checking of XsDurable + real kill images and reconstructed power-loss images recovered by the real store + TLC trace validation (TraceDurable)",
 "codec": "TLC enumeration of a TLA+ transcription of the codec + one implementation test per model case, results validated by TLC",
 "proc": "TLC model checking of XsHandlers/XsCommands/XsGenerators (invariants; temporal properties under weak fairness for commands and generators) + TLC trace validation (TraceProc) of client histories executed on the real serve loops, restarts by killing the serving process",
 "http": "TLC trace validation (TraceStore + status rules) of model-generated behaviours executed over HTTP, plus malformed request classes",
 "conc": "TLC model checking of XsConcurrent (invariants, and temporal properties under weak fairness) + gate-scheduled replay/exploration of real threads + TLC trace validation (TraceFollow)",
 "store": "TLC model checking of XsStore + TLC trace validation (TraceStore) of replayed behaviours on the real store",
}
DESIGN = {"routes": "DESIGN.md 0.3 (routes group), Appendix D", "nu": "DESIGN.md 0.3 (nu group), 5 (C06 C10 C12)", "cli": "DESIGN.md 0.3 (cli group), 5 (C12 C13 C20)", "proc": "DESIGN.md 3 (XsHandlers/XsGenerators/XsCommands), 5 (C14-C19), docs/proc-notes.md", "dur": "DESIGN.md 3 (XsDurable), 4.4, 5 (C04 C10 C07); docs/dur-notes.md", "codec": "DESIGN.md 5 (C12)","http": "DESIGN.md 5 (C13), Appendix D","conc": "DESIGN.md 0.3 (liveness of the concurrent layer), 3, 4.1, 5 (C02 C03 C11)", "store": "DESIGN.md 3, 4, 5 (C01 C05 C07 C08 C09 C20)"}

# what each check decides of its property, and through which group
PROP = {
 "C01": "store: every read (both paths, ctx x last-id x limit), get and the order of append ids, after every step of TLC-generated and random histories incl. reopen, import, GC, expiry; bulk storage layouts only in the durability group's bulk runs.",
 "C02": "conc: poller never misses / stream grows at its end / broadcast order under all gate-level interleavings of 2-3 writers (TLC) and on explored real schedules, plus hook-free stress with production buffer sizes; under weak fairness (FairSpec, MC_conc_live_*) TLC also proves that no writer stays stuck on the append mutex and that the polling client ends up with the whole stream; http: an upload still open while another client's append completes and is read (under the virtual clock, and under the real clock with the real id generator): the later append has the larger id and reaches a poller resuming from the earlier one.",
 "C03": "conc: strictly increasing, duplicate-free, complete delivery and threshold placement for every explored interleaving of append with subscribe / scan / hand-off / live, and as progress under weak fairness (FairSpec: the reader settles, the owed threshold is sent, the open follower ends up with everything it is owed - L_Settles, L_ThresholdSent, L_FollowerComplete); http / cli: complete and ordered delivery over GET /?follow (tail, from the beginning, after an id - also one above or below imported ids -, heartbeat + limit), head --follow and `xs cat --follow`, with frames appended into several contexts while the stream is open. Known finding C03-ephemeral-dropped is recognised by its specific pattern only.",
 "C04": "dur: every store-mutating system call after the first ACK is a crash point: real SIGKILL images and reconstructed power-loss images recovered by the real Store::new; membership in {Apply(acked), Apply(acked + in flight)}, partition and access-path agreement, registry, content after kill.",
 "C05": "store: get / all-contexts read / own-context read agree, head exact for prefix-related, empty, multi-byte and long topics, NUL rejected on append and import with raw partition dumps; XsKeys: the key-layout argument over all short byte strings.",
 "C06": "store: reads and head per context incl. numerically adjacent context ids; conc: follower context filter; http: every route taking a context incl. head --follow; handler dispatch/output and script-visible commands: processors group.",
 "C07": "store: append accepted iff context usable, xs.context only in the zero context and stored forever, registry = function of frames after import / remove / reopen (raw registry dump); dur: after crash-reopen.",
 "C08": "store: a frame vanishes only if removed, expired (virtual clock at ts+N-1, ts+N, ts+N+1 and while a scan is stalled) or outside the K newest after a head:K append; GC steps interleaved by the gate; TLC action property C08_NoEarlyLoss on the model.",
 "C09": "store: ephemeral never stored, expired never read on either path, gone after drain, head bound and eviction order after drain - on the model as the invariant INV_Drained (whenever the collector's queue is empty, in every reachable state, not only where a client drain is possible) and as progress under weak fairness of the collector's step (FairSpec of XsStore, MC_store_live_gc: L_GcDrains, L_C09_Enforced; named deviation head-check-skipped must be rejected); conc: ephemeral frames reach subscribed followers. Known finding C09-reopen-drops-head-gc recognised by its specific pattern only.",
 "C10": "store/http: byte-exact read-back of every content class, hash determinism across calls, entry points (Store API, POST /{topic}, POST /cas) and restarts, no body => no hash, every visible hash has content; conc: content readable at delivery; dur: after every kill image. nu / handler / command / generator entry points: processors group.",
 "C11": "conc: limit exact for every split between history and live, tail, synthetic frames private, stream ends after lag (B = 1 scenarios and production sizes in stress), and as temporal properties under weak fairness the stream does end - end-of-stream reaches the consumer - after the limit, without follow, after lag (L_LimitEnds, L_NonFollowEnds, L_LagEnds; vacuity guard: HbStops = FALSE must violate them); store: limit on non-following reads incl. expired frames, tail without follow.",
 "C12": "codec: TTL and read-option grammar exhaustively at token level through every spelling and entry point, 2000 seeded ReadOptions round trips; store/http: every accepted frame (meta classes: deep nesting, u64::MAX, i64::MIN, 1e300, escapes, non-object metas, 5 KB strings) reads back identical on every path and survives reopen; a panic in the decoder is an observation; cli: what the command line client encodes (context, ttl, xs-meta, last-id, limit, tail, all-contexts) is what the server decodes, judged by the effect and differentially against the Store API.",
 "C13": "http: each route against the store semantics (TraceStore) with status codes and, differentially, against the Store API asked the same question in the same state (reads, get, head, effect of append / import / remove); NDJSON = SSE, ~43 malformed request classes answered 4xx with unchanged partitions and a serving server, follow routes (tail, from the beginning, after an id, heartbeat + limit, head --follow); routes: the dispatch table enumerated (8040 requests) against its TLA+ transcription; cli: the same through the xs binary and src/client.",
 "C14": "proc: per handler instance, from the dumped stream alone: invoked exactly once ($env counter in the content), in id order, one group at a time, for every eligible frame of its context after its resume point (head / tail / after-id), never for its own output, for old registration traffic of its name or for another context; bursts from several client threads while the closure sleeps; pulse handlers.",
 "C15": "proc: every output group = explicit appends in call order then the return frame on <name><suffix> with the configured ttl, all stamped {handler_id, frame_id}, in the handler's context whatever --context said, content in CAS and as predicted (every nu return type, colliding user meta, meta values through nu); a failing invocation leaves nothing but one .unregistered with the error.",
 "C16": "proc: one announcement per registration (.registered, or .unregistered with error for invalid scripts), stop by a later (un)register of the (context, name) - also one the handler appends itself - or a failing trigger, announced exactly once, silent afterwards; at most one responder per (context, name); names that are prefixes of one another. Known findings C16-double-register / C16-unregister-in-flight by their specific pattern only.",
 "C17": "proc: restart = SIGKILL or exit of the serving process (in thorough: at every position of TLC-generated client lists) and start on the same directory: exactly the active handlers come back with their ids per (context, name), latest valid command definitions answer, accepted generators run again; stopped / replaced / failed ones do not; no historical trigger or call is re-executed.",
 "C18": "proc: per accepted spawn `start recv* stop` per lifecycle with source_id, context and contents in order, respawn after stop (up to three lifecycles observed), exactly one spawn.error for a refused spawn (no content, (context, name) taken), a refused spawn never runs - not at a later respawn either; duplex sends of its own context fed once, in order. Known finding C18-generator-worker-panic by its pattern only. As progress (XsGenerators FairSpec, MC_proc_live_g): every spawn ends up answered, every started terminating pipeline ends up with its .stop, the accepted latest spawns end up started again after a restart (L_EverySpawnAnswered, L_StartedTaskStops, L_Restored; vacuity guards CompactByRef = FALSE, Panics = TRUE).",
 "C19": "proc: per call `recv* (complete | error)`, exactly one terminal, last; stamps {command_id, frame_id}; caller's context; latest valid definition of the (context, name); invalid definition reported by .error and never used; per-call isolation ($env), overlapping calls (sleeping closure) keep their stamps apart; explicit .append incl. a byte stream arriving in pieces; no replay after restart. As progress (XsCommands FairSpec, MC_proc_live_c): under weak fairness of the serve loop and the call tasks every call that met a definition ends up with all its values and exactly one terminal event, every invalid definition ends up reported, the table ends up restored after a restart (L_EveryCallAnswered, L_InvalidReported, L_Restored).",
 "C20": "store/http: export of a TLC/random-built store imported in random order with duplicates into an empty store (Store API and POST /cas + POST /import): same frames, heads, content, usable contexts; import keeps ids, identical re-import is a no-op, NUL topic or a different frame under a stored id is rejected whole; cli: the transfer through `xs cas-post` / `xs import` / `xs cat` / `xs cas`.",
}

hooks_commits = subprocess.run("git -C /repo log --format=%h --grep='^verif hooks' ", shell=True, capture_output=True, text=True).stdout.split()

m = {
 "version": 1,
 "setup_cmd": "cd /verif/harness && cargo build 2>&1 | tail -2 && cd /verif && CARGO_PROFILE_DEV_DEBUG=0 cargo build --offline --manifest-path /repo/Cargo.toml --bin xs --target-dir /verif/harness/target-xs 2>&1 | tail -2",
 "hooks": {
  "guard": "xs_verif",
  "enable": "rustc --cfg xs_verif, set in /verif/harness/.cargo/config.toml (the harness crate has a path dependency on /repo and is rebuilt by every check)",
  "baseline_off_cmd": "cd /repo && cargo nextest run --workspace --no-fail-fast --offline --test-threads 8",
  "source_commits": hooks_commits,
  "add_only": True,
 },
 "engines": [
  {"name": "check.py", "path": "tools/check.py", "serves_properties": sorted(PROP_GROUPS),
   "kind_free_text": "driver: cargo build of the harness against /repo, TLC model checking, TLC -simulate behaviour generation, replay on the real code, TLC trace validation, evidence"},
  {"name": "xsv", "path": "harness/", "serves_properties": sorted(PROP_GROUPS),
   "kind_free_text": "Rust conformance harness (replay, probes, abstraction of observations)"},
 ],
 "checks": [],
 "not_applicable": [],
 "notes": "Every check rebuilds the harness from /repo's working tree; results of one group run are shared between the properties of the group through /verif/.cache keyed by the tree state of /repo and /verif, tier and VERIF_SEED.",
}
for p in props:
    pid = p["id"]
    if pid in PROP_GROUPS:
        gs = PROP_GROUPS[pid]
        m["checks"].append({
            "property_id": pid,
            "quick_cmd": f"python3 tools/check.py {pid} --quick",
            "thorough_cmd": f"python3 tools/check.py {pid} --thorough",
            "evidence_file": f"evidence/{pid}.json",
            "replay_cmd_template": "python3 tools/replay.py {path}",
            "engine": "check.py",
            "level_claimed": {"category": "model_checking",
                              "text": (PROP.get(pid, "") + " HOW: " + " ".join(TEXT[g] for g in gs)).strip(),
                              "design_ref": "; ".join(DESIGN[g] for g in gs)},
            "level_note": " ".join(NOTE[g] for g in gs),
            "technique": "; ".join(TECH[g] for g in gs),
        })
    else:
        m["not_applicable"].append({"property_id": pid, "reason": "check not built yet (work in progress; planned in DESIGN.md section 5)"})
json.dump(m, open(os.path.join(V, "MANIFEST.json"), "w"), indent=1)
print("checks:", [c["property_id"] for c in m["checks"]])

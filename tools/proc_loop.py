#!/usr/bin/env python3
"""run the proc group's quick tier for a range of seeds and summarise (soundness soak)"""
import sys, json, time, os
sys.path.insert(0, os.path.dirname(os.path.abspath(__file__)))
import groups.proc as g
from common import ToolError
tier = sys.argv[3] if len(sys.argv) > 3 else "quick"
for seed in range(int(sys.argv[1]), int(sys.argv[2])):
    t0 = time.time()
    try:
        r = g.run(tier, seed)
        v = {p: [(x["b"], x["kind"], x["event"]) for x in xs][:6] for p, xs in r["violations"].items()}
        print(f"seed {seed}: {r['behaviours']} scenarios {r['frames']} frames wall {r['wall_s']}s replay {r['t_replay']} validate {r['t_validate']} "
              f"died {r['harness_died']} violations {v} known {r['known']}", flush=True)
    except ToolError as e:
        print(f"seed {seed}: TOOL ERROR {str(e)[:1500]}", flush=True)

#!/usr/bin/env python3
"""proc_replay.py <replays/proc-sN.json> : run the scenario of a proc replay file again on the current
code and validate the new trace with TraceProc (prints the violations / known keys)."""
import json, os, sys
sys.path.insert(0, os.path.dirname(os.path.abspath(__file__)))
from common import build_harness, scratch
import groups.proc as g
import shutil

d = json.load(open(sys.argv[1]))
sc = d["scenario"]
if not sc:
    sys.exit("no scenario in the replay file")
build_harness()
tmp = scratch("proc-replay")
try:
    files, outs, stats, _, _ = g.run_scenarios([sc], tmp, 1, 1, tag="replay")
    for viols, knowns, verdict, dist, te in outs:
        print("violations:", [(v["w"], v["x"], sorted(v["props"])) for v in viols])
        print("known:", [k["keys"] for k in knowns], "tool errors:", te)
    for f in files:
        for l in open(f):
            e = json.loads(l)
            if e["e"] == "frame":
                print(f"  {e['id']:3} i{e['inc']} c{e['ctx']} {e['topic']:18} act={e['act']:<3} hid={e['hid']} fid={e['fid']} cid={e['cid']} sid={e['sid']} err={int(e['err'])} c={e['c']['k']}|{e['c']['n']}|{e['c']['tid']}")
finally:
    shutil.rmtree(tmp, ignore_errors=True)

#!/usr/bin/env python3
"""replay.py <replay file>: re-runs one recorded behaviour / scenario on the current /repo tree and validates
its fresh trace with TLC. Prints the violations found now (exit 1) or 'no violation' (exit 0)."""
import json
import os
import shutil
import sys

sys.path.insert(0, os.path.dirname(os.path.abspath(__file__)))
from common import XSV, ToolError, build_harness, build_xs_bin, scratch, sh


def main():
    rp = json.load(open(sys.argv[1]))
    g = rp.get("group")
    build_harness()
    d = scratch("replay")
    try:
        if g in ("store", "http", "cli", "nu"):
            from groups import store
            inp = os.path.join(d, "beh.ndjson")
            open(inp, "w").write(json.dumps(rp["behaviour"]) + "\n")
            sh([XSV, "store-replay", "--in", inp, "--out", os.path.join(d, "trace"), "--jobs", "1", "--probes", "3"]
               + (["--http"] if g in ("http", "cli") else []),
               env=dict({"XSV_SCRATCH": d}, **({"XSV_CLI": build_xs_bin()} if g == "cli" else {"XSV_NU": "1"} if g == "nu" else {})))
            viols, verdict, _ = store.validate(os.path.join(d, "trace"))
        elif g == "conc":
            from groups import conc
            inp = os.path.join(d, "sc.ndjson")
            open(inp, "w").write(json.dumps(rp["scenario"]) + "\n")
            sh([XSV, "sched-run", "--in", inp, "--out", os.path.join(d, "trace"), "--jobs", "1"], env={"XSV_SCRATCH": d})
            viols, verdict, _, _ = conc.validate(os.path.join(d, "trace"))
        elif g == "codec":
            from groups import codec
            r = codec.run("quick", 0)
            viols = r["violations"].get("C12", [])
        else:
            mod = __import__(f"groups.{g}", fromlist=["replay"])
            viols = mod.replay(rp, d)
        print("recorded:", json.dumps(rp.get("violations"))[:400])
        if viols:
            print("now:", json.dumps(viols)[:1000])
            return 1
        print("no violation on the current tree (behaviours with concurrency are re-run with the same seed, "
              "thread timing may differ)")
        return 0
    except ToolError as e:
        print("TOOL-ERROR", e, file=sys.stderr)
        return 2
    finally:
        shutil.rmtree(d, ignore_errors=True)


if __name__ == "__main__":
    sys.exit(main())

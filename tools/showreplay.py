#!/usr/bin/env python3
"""print a proc replay file (replays/proc-s*.json) in readable form"""
import json, sys
d = json.load(open(sys.argv[1]))
print("violations:", [(v["w"], v["x"], v["props"], v["timeout"]) for v in d["violations"]])
sc = d["scenario"]
if sc:
    print("mode", sc["mode"], "cfg", sc.get("cfg"), "actions:")
    for a in sc["actions"]:
        print("   ", {k: v for k, v in a.items() if k != "items"}, [ {k: v for k, v in i.items()} for i in a.get("items", [])] or "")
for e in d["trace"]:
    if e["e"] == "frame":
        c = e["c"]
        print(f"  {e['id']:3} i{e['inc']} c{e['ctx']} {e['topic']:18} act={e['act']:<3} {e['kind']:12} hid={e['hid']} fid={e['fid']} cid={e['cid']} sid={e['sid']} err={int(e['err'])} um={e['um']} ttl={e['ttl']} c={c['k']}|{c['n']}|{c['tid']}|{c['t']}|{c['x']}")
    elif e["e"] == "scenario":
        print("SCENARIO", e["s"], list(e["kinds"]))
    else:
        print(e)
